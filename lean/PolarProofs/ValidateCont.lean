/-
  PolarProofs/ValidateCont.lean — V1 (types are an inductive invariant) for programs WITH continuous draws.

  A continuous draw contributes a fresh atom `@i`, so concrete values are polynomials over atoms and the syntactic
  relation of `PolarProofs/Validate.lean` ("the concrete value is the constant …") is replaced by a semantic one:
  `SRel θ S σ`: for every valuation `τ` of the concrete atom names, the concrete value evaluates under `τ` to what the
  symbolic value evaluates to under `θ τ`, where `θ τ` reads a free symbol `x` as the value of the concrete start
  store at `τ` and the symbolic atom `@i` as the concrete atom `@(k+i)` (`k` = number of atoms the concrete path
  already carries when the symbolic execution starts with none).  The relations `ORelS` / `PRelS` also record that the
  concrete atom table is the table `pre` of the concrete start path followed by the symbolic atom table (same
  families, same parameters) — used by V2 with continuous draws (`PolarProofs/ValidateStepC.lean`).

  * `blockS_sim`, `iterS_sim` — symbolic execution is sound for the semantic relation (all nine families).
  * `checkInductiveC_sound0` / `checkInductiveC_sound` — `checkInductiveC cap Γ0 Γ P = .ok true` ⇒ for EVERY n and
    EVERY initial store σ₀ (any polynomial values): on every path of non-zero weight of `run P false n σ₀`
    [`run P false (n+1) σ₀`] every Γ0-typed [Γ-typed] variable that is set holds a polynomial that evaluates to one
    constant of its set under every valuation of the draw atoms.
-/
import Mathlib.Tactic
import Std.Data.String.ToNat
import Polar.Validate
import PolarProofs.PolyEval
import PolarProofs.Validate
open Polar Polar.Validate

namespace Polar.VP

/-! ### atom names -/

def atomName (i : Nat) : String := "@" ++ Nat.repr i

theorem atomVar_eq (i : Nat) : atomVar i = MPoly.var (atomName i) := by
  simp [atomVar, atomName, toString]

theorem atomName_inj : Function.Injective atomName := by
  intro i j h
  unfold atomName at h
  rw [String.append_right_inj] at h
  exact Nat.repr_injective h

theorem atomName_head (i : Nat) : (atomName i).toList.head? = some '@' := by
  have : ("@" : String).toList = ['@'] := by decide
  simp [atomName, String.toList_append, this]

/-- the valuation of the symbolic names induced by a valuation `τ` of the concrete atom names -/
noncomputable def theta (k : Nat) (σ : Store) (τ : String → Rat) : String → Rat := fun name =>
  open Classical in
  if h : ∃ i, name = atomName i then τ (atomName (k + h.choose))
  else match σ.get? name with
    | some v => MPoly.eval τ v
    | none => 0

theorem theta_atom (k : Nat) (σ : Store) (τ : String → Rat) (i : Nat) :
    theta k σ τ (atomName i) = τ (atomName (k + i)) := by
  unfold theta
  have h : ∃ j, atomName i = atomName j := ⟨i, rfl⟩
  rw [dif_pos h]
  have : h.choose = i := (atomName_inj h.choose_spec).symm
  rw [this]

theorem theta_var (k : Nat) (σ : Store) (τ : String → Rat) {x : String} (hx : x.toList.head? ≠ some '@')
    {v : MPoly} (hv : σ.get? x = some v) : theta k σ τ x = MPoly.eval τ v := by
  unfold theta
  have h : ¬ ∃ i, x = atomName i := by
    rintro ⟨i, rfl⟩
    exact hx (atomName_head i)
  rw [dif_neg h, hv]

/-! ### the semantic relation -/

def SRel (θ : (String → Rat) → String → Rat) (S σ : Store) : Prop :=
  ∀ x v v', S.get? x = some v → σ.get? x = some v' → ∀ τ, MPoly.eval τ v' = MPoly.eval (θ τ) v

theorem SRel.set {θ : (String → Rat) → String → Rat} {S σ : Store} (h : SRel θ S σ) (x : String) (v v' : MPoly)
    (hv : ∀ τ, MPoly.eval τ v' = MPoly.eval (θ τ) v) : SRel θ (S.set x v) (σ.set x v') := by
  intro y a a' h1 h2
  rw [store_get_set] at h1 h2
  by_cases hy : y = x
  · simp only [hy, if_true, Option.some.injEq] at h1 h2
    rw [← h1, ← h2]; exact hv
  · simp only [hy, if_false] at h1 h2
    exact h y a a' h1 h2

theorem SRel.set_left {θ : (String → Rat) → String → Rat} {S σ : Store} (h : SRel θ S σ) (x : String) (v : MPoly)
    (hx : ∀ v', σ.get? x = some v' → ∀ τ, MPoly.eval τ v' = MPoly.eval (θ τ) v) : SRel θ (S.set x v) σ := by
  intro y a a' h1 h2
  rw [store_get_set] at h1
  by_cases hy : y = x
  · simp only [hy, if_true, Option.some.injEq] at h1
    subst hy
    rw [← h1]; exact hx a' h2
  · simp only [hy, if_false] at h1
    exact h y a a' h1 h2

theorem evalExprS_sim {θ : (String → Rat) → String → Rat} {S σ : Store} (h : SRel θ S σ) (e : Expr) {v v' : MPoly}
    (hs : evalExpr S e = .ok v) (hc : evalExpr σ e = .ok v') : ∀ τ, MPoly.eval τ v' = MPoly.eval (θ τ) v := by
  induction e generalizing v v' with
  | num r =>
    simp only [evalExpr, pure, Except.pure, Except.ok.injEq] at hs hc
    intro τ
    rw [← hs, ← hc, MPoly.eval_const, MPoly.eval_const]
  | var x =>
    simp only [evalExpr] at hs hc
    cases hg : S.get? x with
    | none => simp [hg, throw_ne_ok] at hs
    | some w =>
      cases hg' : σ.get? x with
      | none => simp [hg', throw_ne_ok] at hc
      | some w' =>
        simp only [hg, hg', pure, Except.pure, Except.ok.injEq] at hs hc
        subst hs hc
        exact h x w w' hg hg'
  | add a b iha ihb =>
    simp only [evalExpr] at hs hc
    obtain ⟨va, h1, hs⟩ := bind_ok.mp hs
    obtain ⟨vb, h2, hs⟩ := bind_ok.mp hs
    obtain ⟨va', h1', hc⟩ := bind_ok.mp hc
    obtain ⟨vb', h2', hc⟩ := bind_ok.mp hc
    rw [pure_ok] at hs hc
    intro τ
    rw [← hs, ← hc, MPoly.eval_add, MPoly.eval_add, iha h1 h1', ihb h2 h2']
  | sub a b iha ihb =>
    simp only [evalExpr] at hs hc
    obtain ⟨va, h1, hs⟩ := bind_ok.mp hs
    obtain ⟨vb, h2, hs⟩ := bind_ok.mp hs
    obtain ⟨va', h1', hc⟩ := bind_ok.mp hc
    obtain ⟨vb', h2', hc⟩ := bind_ok.mp hc
    rw [pure_ok] at hs hc
    intro τ
    rw [← hs, ← hc, MPoly.eval_sub, MPoly.eval_sub, iha h1 h1', ihb h2 h2']
  | mul a b iha ihb =>
    simp only [evalExpr] at hs hc
    obtain ⟨va, h1, hs⟩ := bind_ok.mp hs
    obtain ⟨vb, h2, hs⟩ := bind_ok.mp hs
    obtain ⟨va', h1', hc⟩ := bind_ok.mp hc
    obtain ⟨vb', h2', hc⟩ := bind_ok.mp hc
    rw [pure_ok] at hs hc
    intro τ
    rw [← hs, ← hc, MPoly.eval_mul, MPoly.eval_mul, iha h1 h1', ihb h2 h2']
  | neg a iha =>
    simp only [evalExpr] at hs hc
    obtain ⟨va, h1, hs⟩ := bind_ok.mp hs
    obtain ⟨va', h1', hc⟩ := bind_ok.mp hc
    rw [pure_ok] at hs hc
    intro τ
    rw [← hs, ← hc, MPoly.eval_neg, MPoly.eval_neg, iha h1 h1']
  | pow a k iha =>
    simp only [evalExpr] at hs hc
    obtain ⟨va, h1, hs⟩ := bind_ok.mp hs
    obtain ⟨va', h1', hc⟩ := bind_ok.mp hc
    rw [pure_ok] at hs hc
    intro τ
    rw [← hs, ← hc, MPoly.eval_pow, MPoly.eval_pow, iha h1 h1']
  | div a b iha ihb =>
    simp only [evalExpr] at hs hc
    obtain ⟨vb, h2, hs⟩ := bind_ok.mp hs
    obtain ⟨vb', h2', hc⟩ := bind_ok.mp hc
    have hb := ihb h2 h2'
    cases hk : MPoly.isConst? vb with
    | none => simp [hk, throw_ne_ok] at hs
    | some c =>
      cases hk' : MPoly.isConst? vb' with
      | none => simp [hk', throw_ne_ok] at hc
      | some c' =>
        have hcc : c' = c := by
          have e1 := isConst_sound hk' (fun _ => 0)
          have e2 := isConst_sound hk (θ (fun _ => 0))
          rw [← e1, ← e2]; exact hb _
        subst hcc
        simp only [hk] at hs
        simp only [hk'] at hc
        by_cases hz : c' = 0
        · simp [hz, throw_ne_ok] at hs
        · simp only [hz, if_false] at hs hc
          obtain ⟨va, h1, hs⟩ := bind_ok.mp hs
          obtain ⟨va', h1', hc⟩ := bind_ok.mp hc
          rw [pure_ok] at hs hc
          intro τ
          rw [← hs, ← hc, MPoly.eval_scale, MPoly.eval_scale, iha h1 h1']

theorem evalConstS_sim {θ : (String → Rat) → String → Rat} {S σ : Store} (h : SRel θ S σ) (e : Expr) {c c' : Rat}
    (hs : evalConst S e = .ok c) (hc : evalConst σ e = .ok c') : c' = c := by
  simp only [evalConst] at hs hc
  obtain ⟨v, h1, hs⟩ := bind_ok.mp hs
  obtain ⟨v', h1', hc⟩ := bind_ok.mp hc
  have hv := evalExprS_sim h e h1 h1'
  cases hk : MPoly.isConst? v with
  | none => simp [hk, throw_ne_ok] at hs
  | some k =>
    cases hk' : MPoly.isConst? v' with
    | none => simp [hk', throw_ne_ok] at hc
    | some k' =>
      simp only [hk, hk', pure, Except.pure, Except.ok.injEq] at hs hc
      rw [← hs, ← hc, ← isConst_sound hk' (fun _ => 0), ← isConst_sound hk (θ (fun _ => 0))]
      exact hv _

theorem evalCondS_sim {θ : (String → Rat) → String → Rat} {S σ : Store} (h : SRel θ S σ) (c : Cond) {b b' : Bool}
    (hs : evalCond S c = .ok b) (hc : evalCond σ c = .ok b') : b' = b := by
  induction c generalizing b b' with
  | tt =>
    simp only [evalCond, pure, Except.pure, Except.ok.injEq] at hs hc
    rw [← hs, ← hc]
  | ff =>
    simp only [evalCond, pure, Except.pure, Except.ok.injEq] at hs hc
    rw [← hs, ← hc]
  | cmp op l r =>
    simp only [evalCond] at hs hc
    obtain ⟨vl, h1, hs⟩ := bind_ok.mp hs
    obtain ⟨vr, h2, hs⟩ := bind_ok.mp hs
    obtain ⟨vl', h1', hc⟩ := bind_ok.mp hc
    obtain ⟨vr', h2', hc⟩ := bind_ok.mp hc
    cases hk : MPoly.isConst? (MPoly.sub vl vr) with
    | none => simp [hk, throw_ne_ok] at hs
    | some k =>
      cases hk' : MPoly.isConst? (MPoly.sub vl' vr') with
      | none => simp [hk', throw_ne_ok] at hc
      | some k' =>
        simp only [hk, hk', pure, Except.pure, Except.ok.injEq] at hs hc
        have e1 := isConst_sound hk' (fun _ => 0)
        have e2 := isConst_sound hk (θ (fun _ => 0))
        rw [MPoly.eval_sub] at e1 e2
        rw [evalExprS_sim h l h1 h1', evalExprS_sim h r h2 h2', e2] at e1
        rw [← hs, ← hc, e1]
  | not c ih =>
    simp only [evalCond] at hs hc
    obtain ⟨v, h1, hs⟩ := bind_ok.mp hs
    obtain ⟨v', h1', hc⟩ := bind_ok.mp hc
    rw [pure_ok] at hs hc
    rw [← hs, ← hc, ih h1 h1']
  | and a b iha ihb =>
    simp only [evalCond] at hs hc
    obtain ⟨va, h1, hs⟩ := bind_ok.mp hs
    obtain ⟨vb, h2, hs⟩ := bind_ok.mp hs
    obtain ⟨va', h1', hc⟩ := bind_ok.mp hc
    obtain ⟨vb', h2', hc⟩ := bind_ok.mp hc
    rw [pure_ok] at hs hc
    rw [← hs, ← hc, iha h1 h1', ihb h2 h2']
  | or a b iha ihb =>
    simp only [evalCond] at hs hc
    obtain ⟨va, h1, hs⟩ := bind_ok.mp hs
    obtain ⟨vb, h2, hs⟩ := bind_ok.mp hs
    obtain ⟨va', h1', hc⟩ := bind_ok.mp hc
    obtain ⟨vb', h2', hc⟩ := bind_ok.mp hc
    rw [pure_ok] at hs hc
    rw [← hs, ← hc, iha h1 h1', ihb h2 h2']

/-! ### right-hand sides -/

/-- symbolic outcome vs. concrete outcome: same weight, values related, the concrete atom table is the table `pre`
    of the concrete start path followed by the symbolic atom table (same families, same parameters) -/
def ORelS (θ : (String → Rat) → String → Rat) (pre : List Atom) (o o' : Rat × MPoly × List Atom) : Prop :=
  o.1 = o'.1 ∧ (∀ τ, MPoly.eval τ o'.2.1 = MPoly.eval (θ τ) o.2.1) ∧ o'.2.2 = pre ++ o.2.2

theorem atom_eval {θ : (String → Rat) → String → Rat} {k : Nat}
    (hθ : ∀ τ i, θ τ (atomName i) = τ (atomName (k + i))) {n n' : Nat} (hlen : n' = k + n) (τ : String → Rat) :
    MPoly.eval τ (atomVar n') = MPoly.eval (θ τ) (atomVar n) := by
  rw [atomVar_eq, atomVar_eq, MPoly.eval_var, MPoly.eval_var, hθ, hlen]

theorem evalConstsS_sim {θ : (String → Rat) → String → Rat} {S σ : Store} (h : SRel θ S σ) {ps : List Expr}
    {qs qs' : List Rat}
    (h1 : List.Forall₂ (fun e q => evalConst S e = .ok q) ps qs)
    (h2 : List.Forall₂ (fun e q => evalConst σ e = .ok q) ps qs') : qs' = qs := by
  induction h1 generalizing qs' with
  | nil => cases h2; rfl
  | @cons e q t qs₁ he _ ih =>
    cases h2 with
    | @cons _ q' _ qs₂ he' ht' =>
      rw [evalConstS_sim h e he he', ih ht']

theorem mkCat_relS (θ : (String → Rat) → String → Rat) (pre : List Atom) (at1 at2 : List Atom)
    (hlen : at2 = pre ++ at1) (qs : List Rat) (j : Nat) :
    List.Forall₂ (ORelS θ pre) (mkCat at1 j qs) (mkCat at2 j qs) := by
  induction qs generalizing j with
  | nil => exact List.Forall₂.nil
  | cons q t ih =>
    simp only [mkCat]
    exact List.Forall₂.cons ⟨rfl, fun τ => by simp [MPoly.eval_const], hlen⟩ (ih (j + 1))

theorem choiceS_sim {θ : (String → Rat) → String → Rat} {pre : List Atom} {S σ : Store} (h : SRel θ S σ)
    {at1 at2 : List Atom} (hlen : at2 = pre ++ at1)
    {alts : List (Expr × Expr)} {l l' : List (Rat × MPoly × List Atom)}
    (h1 : List.Forall₂ (SemAlt S at1) alts l) (h2 : List.Forall₂ (SemAlt σ at2) alts l') :
    List.Forall₂ (ORelS θ pre) l l' := by
  induction h1 generalizing l' with
  | nil => cases h2; exact List.Forall₂.nil
  | @cons a o t l₁ hao _ ih =>
    cases h2 with
    | @cons _ o' _ l₂ hao' ht' =>
      refine List.Forall₂.cons ⟨?_, ?_, ?_⟩ (ih ht')
      · exact (evalConstS_sim h a.2 hao.1 hao'.1).symm
      · exact evalExprS_sim h a.1 hao.2.1 hao'.2.1
      · rw [hao.2.2, hao'.2.2, hlen]

theorem singleS {θ : (String → Rat) → String → Rat} {pre : List Atom} {v v' : MPoly} {as as' : List Atom} {a : Atom}
    (hv : ∀ τ, MPoly.eval τ v' = MPoly.eval (θ τ) v) (hlen : as' = pre ++ as) :
    List.Forall₂ (ORelS θ pre) [(1, v, as ++ [a])] [(1, v', as' ++ [a])] := by
  refine List.Forall₂.cons ⟨rfl, hv, ?_⟩ List.Forall₂.nil
  simp only [hlen, List.append_assoc]

theorem rhsS_sim {θ : (String → Rat) → String → Rat} {pre : List Atom}
    (hθ : ∀ τ i, θ τ (atomName i) = τ (atomName (pre.length + i))) {ps pc : Path} (h : SRel θ ps.vals pc.vals)
    (hlen : pc.atoms = pre ++ ps.atoms)
    (rhs : Rhs) (hok : rhsOKC rhs = true) {os oc : List (Rat × MPoly × List Atom)}
    (hs : evalRhs ps rhs = .ok os) (hc : evalRhs pc rhs = .ok oc) : List.Forall₂ (ORelS θ pre) os oc := by
  have hl : pc.atoms.length = pre.length + ps.atoms.length := by rw [hlen, List.length_append]
  cases rhs with
  | expr e =>
    obtain ⟨v, h1, rfl⟩ := evalRhs_expr_ok hs
    obtain ⟨v', h1', rfl⟩ := evalRhs_expr_ok hc
    exact List.Forall₂.cons ⟨rfl, evalExprS_sim h e h1 h1', hlen⟩ List.Forall₂.nil
  | choice alts =>
    exact choiceS_sim h hlen (evalRhs_choice_ok hs) (evalRhs_choice_ok hc)
  | dist name params =>
    by_cases hd : rhsOK (.dist name params) = true
    · have d1 := evalRhs_dist_ok hd hs
      have d2 := evalRhs_dist_ok hd hc
      cases d1 with
      | bern e q hn hp hq ho =>
        cases d2 with
        | bern e' q' hn' hp' hq' ho' =>
          rw [hp] at hp'
          simp only [List.cons.injEq, and_true] at hp'
          subst hp'
          have := evalConstS_sim h e hq hq'
          subst this
          rw [ho, ho']
          exact List.Forall₂.cons ⟨rfl, fun τ => by simp [MPoly.eval_const], hlen⟩
            (List.Forall₂.cons ⟨rfl, fun τ => by simp [MPoly.eval_const], hlen⟩ List.Forall₂.nil)
        | cat _ hn' => exact absurd (hn.symm.trans hn') (by decide)
        | du _ _ _ _ hn' => exact absurd (hn.symm.trans hn') (by decide)
      | cat qs hn hq ho =>
        cases d2 with
        | bern _ _ hn' => exact absurd (hn.symm.trans hn') (by decide)
        | cat qs' hn' hq' ho' =>
          have := evalConstsS_sim h hq hq'
          subst this
          rw [ho, ho']
          exact mkCat_relS θ pre _ _ hlen qs' 0
        | du _ _ _ _ hn' => exact absurd (hn.symm.trans hn') (by decide)
      | du a b lo hi hn hp ha hb ho =>
        cases d2 with
        | bern _ _ hn' => exact absurd (hn.symm.trans hn') (by decide)
        | cat _ hn' => exact absurd (hn.symm.trans hn') (by decide)
        | du a' b' lo' hi' hn' hp' ha' hb' ho' =>
          rw [hp] at hp'
          simp only [List.cons.injEq, and_true] at hp'
          obtain ⟨rfl, rfl⟩ := hp'
          have e1 := evalConstS_sim h a ha ha'
          have e2 := evalConstS_sim h b hb hb'
          subst e1 e2
          rw [ho, ho', List.forall₂_map_left_iff, List.forall₂_map_right_iff, List.forall₂_same]
          intro j _
          exact ⟨rfl, fun τ => by simp [MPoly.eval_const], hlen⟩
    · simp only [evalRhs] at hs
      split at hs
      · exact absurd (by simp [rhsOK]) hd
      · exact absurd (by simp [rhsOK]) hd
      · exact absurd (by simp [rhsOK]) hd
      · -- Normal
        rename_i mu s2
        simp only [evalRhs] at hc
        obtain ⟨m, hm, hs⟩ := bind_ok.mp hs
        obtain ⟨v, hv, hs⟩ := bind_ok.mp hs
        obtain ⟨m', hm', hc⟩ := bind_ok.mp hc
        obtain ⟨v', hv', hc⟩ := bind_ok.mp hc
        have := evalConstS_sim h s2 hv hv'
        subst this
        split at hs
        · simp [throw, throwThe, MonadExceptOf.throw, bind, Except.bind] at hs
        · rename_i hneg
          simp only [hneg, if_false] at hc
          rw [pure_ok] at hs hc
          subst hs hc
          exact singleS (fun τ => by
            rw [MPoly.eval_add, MPoly.eval_add, evalExprS_sim h mu hm hm' τ, atom_eval hθ hl τ]) hlen
      · -- Uniform
        rename_i a b
        simp only [evalRhs] at hc
        obtain ⟨va, hva, hs⟩ := bind_ok.mp hs
        obtain ⟨vb, hvb, hs⟩ := bind_ok.mp hs
        obtain ⟨va', hva', hc⟩ := bind_ok.mp hc
        obtain ⟨vb', hvb', hc⟩ := bind_ok.mp hc
        rw [pure_ok] at hs hc
        subst hs hc
        exact singleS (fun τ => by
          rw [MPoly.eval_add, MPoly.eval_add, MPoly.eval_mul, MPoly.eval_mul, MPoly.eval_sub, MPoly.eval_sub,
            evalExprS_sim h a hva hva' τ, evalExprS_sim h b hvb hvb' τ, atom_eval hθ hl τ]) hlen
      · -- Laplace
        rename_i mu b
        simp only [evalRhs] at hc
        obtain ⟨m, hm, hs⟩ := bind_ok.mp hs
        obtain ⟨v, hv, hs⟩ := bind_ok.mp hs
        obtain ⟨m', hm', hc⟩ := bind_ok.mp hc
        obtain ⟨v', hv', hc⟩ := bind_ok.mp hc
        have := evalConstS_sim h b hv hv'
        subst this
        split at hs
        · simp [throw, throwThe, MonadExceptOf.throw, bind, Except.bind] at hs
        · rename_i hneg
          simp only [hneg, if_false] at hc
          rw [pure_ok] at hs hc
          subst hs hc
          exact singleS (fun τ => by
            rw [MPoly.eval_add, MPoly.eval_add, evalExprS_sim h mu hm hm' τ, atom_eval hθ hl τ]) hlen
      · -- Exponential
        rename_i lam
        simp only [evalRhs] at hc
        obtain ⟨v, hv, hs⟩ := bind_ok.mp hs
        obtain ⟨v', hv', hc⟩ := bind_ok.mp hc
        have := evalConstS_sim h lam hv hv'
        subst this
        split at hs
        · simp [throw, throwThe, MonadExceptOf.throw, bind, Except.bind] at hs
        · rename_i hneg
          simp only [hneg, if_false] at hc
          rw [pure_ok] at hs hc
          subst hs hc
          exact singleS (atom_eval hθ hl) hlen
      · -- Gamma
        rename_i a b
        simp only [evalRhs] at hc
        obtain ⟨va, hva, hs⟩ := bind_ok.mp hs
        obtain ⟨vb, hvb, hs⟩ := bind_ok.mp hs
        obtain ⟨va', hva', hc⟩ := bind_ok.mp hc
        obtain ⟨vb', hvb', hc⟩ := bind_ok.mp hc
        have e1 := evalConstS_sim h a hva hva'
        have e2 := evalConstS_sim h b hvb hvb'
        subst e1 e2
        split at hs
        · simp [throw, throwThe, MonadExceptOf.throw, bind, Except.bind] at hs
        · rename_i hneg
          simp only [hneg, if_false] at hc
          rw [pure_ok] at hs hc
          subst hs hc
          exact singleS (atom_eval hθ hl) hlen
      · -- Beta
        rename_i a b
        simp only [evalRhs] at hc
        obtain ⟨va, hva, hs⟩ := bind_ok.mp hs
        obtain ⟨vb, hvb, hs⟩ := bind_ok.mp hs
        obtain ⟨va', hva', hc⟩ := bind_ok.mp hc
        obtain ⟨vb', hvb', hc⟩ := bind_ok.mp hc
        have e1 := evalConstS_sim h a hva hva'
        have e2 := evalConstS_sim h b hvb hvb'
        subst e1 e2
        split at hs
        · simp [throw, throwThe, MonadExceptOf.throw, bind, Except.bind] at hs
        · rename_i hneg
          simp only [hneg, if_false] at hc
          rw [pure_ok] at hs hc
          subst hs hc
          exact singleS (atom_eval hθ hl) hlen
      · exact absurd hs throw_ne_ok

/-! ### statements, blocks, one iteration -/

def PRelS (θ : (String → Rat) → String → Rat) (pre : List Atom) (a b : Rat × Path) : Prop :=
  a.1 = b.1 ∧ b.2.atoms = pre ++ a.2.atoms ∧ SRel θ a.2.vals b.2.vals

theorem outsS_sim {θ : (String → Rat) → String → Rat} {pre : List Atom} {ps pc : Path} (h : SRel θ ps.vals pc.vals)
    (x : String) {os oc : List (Rat × MPoly × List Atom)} (ho : List.Forall₂ (ORelS θ pre) os oc) :
    List.Forall₂ (PRelS θ pre)
      (os.map (fun o => (o.1, ({ vals := ps.vals.set x o.2.1, atoms := o.2.2 } : Path))))
      (oc.map (fun o => (o.1, ({ vals := pc.vals.set x o.2.1, atoms := o.2.2 } : Path)))) := by
  induction ho with
  | nil => exact List.Forall₂.nil
  | @cons o o' _ _ hoo _ ih =>
    simp only [List.map_cons]
    exact List.Forall₂.cons ⟨hoo.1, hoo.2.2, h.set x _ _ hoo.2.1⟩ ih

theorem assignS_sim {θ : (String → Rat) → String → Rat} {pre : List Atom}
    (hθ : ∀ τ i, θ τ (atomName i) = τ (atomName (pre.length + i))) {ps pc : Path} (h : SRel θ ps.vals pc.vals)
    (hlen : pc.atoms = pre ++ ps.atoms)
    (x : String) (rhs : Rhs) (g : Cond) (d : String) (hok : rhsOKC rhs = true) {Ds Dc : WD}
    (hs : execStmt (.assign x rhs g d) ps = .ok Ds) (hc : execStmt (.assign x rhs g d) pc = .ok Dc) :
    List.Forall₂ (PRelS θ pre) Ds Dc := by
  rw [execStmt] at hs hc
  obtain ⟨b, hb, hs⟩ := bind_ok.mp hs
  obtain ⟨b', hb', hc⟩ := bind_ok.mp hc
  have := evalCondS_sim h g hb hb'
  subst this
  cases b' with
  | true =>
    simp only [if_true] at hs hc
    obtain ⟨os, ho, hs⟩ := bind_ok.mp hs
    obtain ⟨oc, ho', hc⟩ := bind_ok.mp hc
    rw [pure_ok] at hs hc
    subst hs hc
    exact outsS_sim h x (rhsS_sim hθ h hlen rhs hok ho ho')
  | false =>
    simp only [Bool.false_eq_true, if_false] at hs hc
    cases hg : ps.vals.get? d with
    | none => simp [hg, throw_ne_ok] at hs
    | some v =>
      cases hg' : pc.vals.get? d with
      | none => simp [hg', throw_ne_ok] at hc
      | some v' =>
        simp only [hg, hg', pure, Except.pure, Except.ok.injEq] at hs hc
        subst hs hc
        exact List.Forall₂.cons ⟨rfl, hlen, h.set x v v' (h d v v' hg hg')⟩ List.Forall₂.nil

theorem scaleS_sim {θ : (String → Rat) → String → Rat} {pre : List Atom} (w : Rat) {Da Db : WD}
    (h : List.Forall₂ (PRelS θ pre) Da Db) :
    List.Forall₂ (PRelS θ pre) (Da.map (fun x => (w * x.1, x.2))) (Db.map (fun x => (w * x.1, x.2))) := by
  induction h with
  | nil => exact List.Forall₂.nil
  | @cons a b _ _ hab _ ih =>
    simp only [List.map_cons]
    exact List.Forall₂.cons ⟨by rw [hab.1], hab.2⟩ ih

theorem bindS_sim {θ : (String → Rat) → String → Rat} {pre : List Atom} {f f' : Path → M WD} {Ds Dc : WD}
    (hd : List.Forall₂ (PRelS θ pre) Ds Dc)
    (hf : ∀ a b, PRelS θ pre a b → ∀ Da Db, f a.2 = .ok Da → f' b.2 = .ok Db → List.Forall₂ (PRelS θ pre) Da Db)
    {Es Ec : WD} (hs : bindW Ds f = .ok Es) (hc : bindW Dc f' = .ok Ec) : List.Forall₂ (PRelS θ pre) Es Ec := by
  induction hd generalizing Es Ec with
  | nil =>
    rw [bindW_nil_ok hs, bindW_nil_ok hc]
    exact List.Forall₂.nil
  | @cons a b ta tb hab _ ih =>
    obtain ⟨w, q⟩ := a
    obtain ⟨w', q'⟩ := b
    obtain ⟨A, B, hA, hB, rfl⟩ := bindW_cons_ok hs
    obtain ⟨A', B', hA', hB', rfl⟩ := bindW_cons_ok hc
    have hw : w = w' := hab.1
    subst hw
    exact forall₂_append' (scaleS_sim w (hf _ _ hab A A' hA hA')) (ih hB hB')

theorem blockS_sim {θ : (String → Rat) → String → Rat} {pre : List Atom}
    (hθ : ∀ τ i, θ τ (atomName i) = τ (atomName (pre.length + i))) (blk : List Stmt) (hok : blk.all stmtOKC = true)
    {ps pc : Path} (h : SRel θ ps.vals pc.vals) (hlen : pc.atoms = pre ++ ps.atoms) {Ds Dc : WD}
    (hs : execBlock blk ps = .ok Ds) (hc : execBlock blk pc = .ok Dc) : List.Forall₂ (PRelS θ pre) Ds Dc := by
  induction blk generalizing ps pc Ds Dc with
  | nil =>
    rw [execBlock_nil, pure_ok] at hs hc
    subst hs hc
    exact List.Forall₂.cons ⟨rfl, hlen, h⟩ List.Forall₂.nil
  | cons st rest ih =>
    simp only [List.all_cons, Bool.and_eq_true] at hok
    cases st with
    | assign x rhs g dflt =>
      rw [execBlock_cons] at hs hc
      obtain ⟨d, hd, hs⟩ := bind_ok.mp hs
      obtain ⟨d', hd', hc⟩ := bind_ok.mp hc
      have h1 := assignS_sim hθ h hlen x rhs g dflt (by simpa [stmtOKC] using hok.1) hd hd'
      exact bindS_sim h1 (fun a b hab Da Db hA hB => ih hok.2 hab.2.2 hab.2.1 hA hB) hs hc
    | simult xs rhss => simp [stmtOKC] at hok
    | ite c t e => simp [stmtOKC] at hok

theorem iterS_sim {θ : (String → Rat) → String → Rat} {pre : List Atom}
    (hθ : ∀ τ i, θ τ (atomName i) = τ (atomName (pre.length + i))) (P : Program) (hok : P.body.all stmtOKC = true)
    {ps pc : Path} (h : SRel θ ps.vals pc.vals) (hlen : pc.atoms = pre ++ ps.atoms) {Ds Dc : WD}
    (hs : iter P ps = .ok Ds) (hc : iter P pc = .ok Dc) : List.Forall₂ (PRelS θ pre) Ds Dc := by
  simp only [iter] at hs hc
  obtain ⟨b, hb, hs⟩ := bind_ok.mp hs
  obtain ⟨b', hb', hc⟩ := bind_ok.mp hc
  have := evalCondS_sim h P.guard hb hb'
  subst this
  cases b' with
  | true =>
    simp only [if_true] at hs hc
    exact blockS_sim hθ P.body hok h hlen hs hc
  | false =>
    simp only [Bool.false_eq_true, if_false] at hs hc
    rw [pure_ok] at hs hc
    subst hs hc
    exact List.Forall₂.cons ⟨rfl, hlen, h⟩ List.Forall₂.nil

/-! ### the invariant and the start stores -/

/-- every typed variable that is set holds a polynomial that is, as a function of the draw atoms, one constant of
    its set -/
def InvS (Γ : TypeEnv) (q : Path) : Prop :=
  ∀ e ∈ Γ, ∀ v, q.vals.get? e.1 = some v → ∃ c ∈ e.2, ∀ τ, MPoly.eval τ v = c

theorem srel_nil (θ : (String → Rat) → String → Rat) (σ : Store) : SRel θ [] σ := by
  intro x v v' h1
  simp [store_get_nil] at h1

theorem srel_free {k : Nat} {σ : Store} (xs : List String) (hxs : ∀ x ∈ xs, x.toList.head? ≠ some '@')
    (S : Store) (h : SRel (theta k σ) S σ) :
    SRel (theta k σ) (xs.foldl (fun s x => s.set x (MPoly.var x)) S) σ := by
  induction xs generalizing S with
  | nil => exact h
  | cons x t ih =>
    simp only [List.foldl_cons]
    refine ih (fun y hy => hxs y (by simp [hy])) _ (h.set_left x _ (fun v' hv' τ => ?_))
    rw [MPoly.eval_var, theta_var k σ τ (hxs x (by simp)) hv']

theorem srel_assign {θ : (String → Rat) → String → Rat} {σ : Store} (a : Assign)
    (ha : ∀ xc ∈ a, ∀ v, σ.get? xc.1 = some v → ∀ τ, MPoly.eval τ v = xc.2) (S : Store) (h : SRel θ S σ) :
    SRel θ (assignStore S a) σ := by
  unfold assignStore
  induction a generalizing S with
  | nil => exact h
  | cons xc t ih =>
    simp only [List.foldl_cons]
    refine ih (fun y hy => ha y (by simp [hy])) _ (h.set_left xc.1 _ (fun v' hv' τ => ?_))
    rw [MPoly.eval_const]
    exact ha xc (by simp) v' hv' τ

theorem stateOf_memS {Γ : TypeEnv} {q : Path} (hne : ∀ e ∈ Γ, e.2 ≠ []) (hΓ : InvS Γ q) :
    stateOf Γ q.vals ∈ enumΓ Γ := by
  refine mem_enumΓ _ Γ (fun e he => ?_)
  cases hg : q.vals.get? e.1 with
  | none =>
    simp only
    cases hv : e.2 with
    | nil => exact absurd hv (hne e he)
    | cons c t => simp
  | some v =>
    obtain ⟨c, hc, hv⟩ := hΓ e he v hg
    simp only
    rw [hv]; exact hc

theorem stateOf_agreesS {Γ : TypeEnv} {q : Path} (hΓ : InvS Γ q) :
    ∀ xc ∈ stateOf Γ q.vals, ∀ v, q.vals.get? xc.1 = some v → ∀ τ, MPoly.eval τ v = xc.2 := by
  intro xc hxc v hv τ
  simp only [stateOf, List.mem_map] at hxc
  obtain ⟨e, he, rfl⟩ := hxc
  simp only at hv ⊢
  obtain ⟨c, _, hc⟩ := hΓ e he v hv
  rw [hv]
  simp only
  rw [hc, hc]

theorem satΓ_soundS {θ : (String → Rat) → String → Rat} {Γ : TypeEnv} {S : Store} {q : Path}
    (h : SRel θ S q.vals) (hs : satΓ Γ S = true) : InvS Γ q := by
  intro e he v' hv'
  simp only [satΓ, List.all_eq_true] at hs
  have := hs e he
  unfold holdsIn at this
  cases hg : S.get? e.1 with
  | none => simp [hg] at this
  | some p =>
    cases hk : MPoly.isConst? p with
    | none => simp [hg, hk] at this
    | some c =>
      simp only [hg, hk, List.contains_eq_mem, decide_eq_true_eq] at this
      refine ⟨c, this, fun τ => ?_⟩
      rw [h e.1 p v' hg hv' τ, isConst_sound hk]

theorem inv_transferS {θ : (String → Rat) → String → Rat} {pre : List Atom} {Γ : TypeEnv} {Ds Dc : WD}
    (hsim : List.Forall₂ (PRelS θ pre) Ds Dc) (hbad : badPath Γ Ds = none) : AllInv (InvS Γ) Dc := by
  intro wq hwq hne
  obtain ⟨a, ha, hr⟩ := forall₂_mem_right hsim hwq
  exact satΓ_soundS hr.2.2 (badPath_none hbad a ha (by rw [hr.1]; exact hne))

/-! ### reading the check -/

theorem admissibleC_ok {cap : Nat} {Γ : TypeEnv} {P : Program} {xs : List String} {u : Unit}
    (h : admissibleC cap Γ P xs = .ok u) :
    FragmentC P = true ∧ (∀ x ∈ xs, x.toList.head? ≠ some '@') ∧ ∀ e ∈ Γ, e.2 ≠ [] := by
  unfold admissibleC at h
  split at h
  · exact absurd h throw_ne_ok
  · rename_i hf
    split at h
    · exact absurd h throw_ne_ok
    · rename_i hat
      split at h
      · exact absurd h throw_ne_ok
      · rename_i hne
        refine ⟨by simpa using hf, ?_, fun e he hnil => hne ?_⟩
        · intro x hx
          have : atomFree xs = true := by simpa using hat
          simp only [atomFree, List.all_eq_true] at this
          simpa using this x hx
        · simp only [List.any_eq_true]
          exact ⟨e, he, by simp [hnil]⟩

theorem inductiveCexC_none {cap : Nat} {Γ0 Γ : TypeEnv} {P : Program} (h : inductiveCexC cap Γ0 Γ P = .ok none) :
    FragmentC P = true ∧ (∀ x ∈ symVars Γ P [], x.toList.head? ≠ some '@') ∧ (∀ e ∈ Γ0, e.2 ≠ []) ∧
    subEnv Γ0 Γ = true ∧
    (∃ D0, execBlock P.init ⟨freeStore (symVars Γ P []), []⟩ = .ok D0 ∧ badPath Γ0 D0 = none) ∧
    ∀ a ∈ enumΓ Γ0, stepCex Γ P (freeStore (symVars Γ P [])) a = .ok none := by
  simp only [inductiveCexC] at h
  obtain ⟨u, hu, h⟩ := bind_ok.mp h
  obtain ⟨hF, hat, hne⟩ := admissibleC_ok hu
  split at h
  · exact absurd h throw_ne_ok
  · rename_i hsub
    obtain ⟨D0, h0, h⟩ := bind_ok.mp h
    cases hb : badPath Γ0 D0 with
    | some wp => simp [hb, pure, Except.pure] at h
    | none =>
      simp only [hb] at h
      exact ⟨hF, hat, hne, by simpa using hsub, ⟨D0, h0, hb⟩, firstFail_none h⟩

theorem fragmentC_parts {P : Program} (h : FragmentC P = true) :
    P.init.all stmtOKC = true ∧ P.body.all stmtOKC = true := by
  simpa [FragmentC] using h

theorem subEnv_invS {Γ0 Γ : TypeEnv} (h : subEnv Γ0 Γ = true) {q : Path} (hΓ : InvS Γ q) : InvS Γ0 q := by
  intro e he
  simp only [subEnv, List.all_eq_true, List.contains_eq_mem, decide_eq_true_eq] at h
  exact hΓ e (h e he)

theorem stepS_preserves {Γ0 Γ : TypeEnv} {P : Program} {xs : List String} (hF : FragmentC P = true)
    (hat : ∀ x ∈ xs, x.toList.head? ≠ some '@') (hne : ∀ e ∈ Γ0, e.2 ≠ [])
    (hstep : ∀ a ∈ enumΓ Γ0, stepCex Γ P (freeStore xs) a = .ok none)
    (q : Path) (hq : InvS Γ0 q) (D : WD) (hD : iter P q = .ok D) : AllInv (InvS Γ) D := by
  obtain ⟨Ds, hDs, hbad⟩ := stepCex_none (hstep _ (stateOf_memS hne hq))
  have hrel : SRel (theta q.atoms.length q.vals) (assignStore (freeStore xs) (stateOf Γ0 q.vals)) q.vals :=
    srel_assign _ (stateOf_agreesS hq) _ (srel_free xs hat [] (srel_nil _ _))
  exact inv_transferS (pre := q.atoms)
    (iterS_sim (θ := theta q.atoms.length q.vals) (pre := q.atoms) (theta_atom _ _) P (fragmentC_parts hF).2
      (ps := ⟨_, []⟩) hrel (List.append_nil _).symm hDs hD) hbad

/-- **V1 with continuous draws (from n = 0).**  If `checkInductiveC` accepts, then for EVERY `n` and EVERY initial
    store `σ₀` (no assumption on its values): on every path of non-zero weight of `run P false n σ₀` every
    `Γ0`-typed variable that is set holds a polynomial over the draw atoms that evaluates, under every valuation of
    the atoms, to one and the same constant of its set. -/
theorem checkInductiveC_sound0 {cap : Nat} {Γ0 Γ : TypeEnv} {P : Program}
    (h : checkInductiveC cap Γ0 Γ P = .ok true)
    (n : Nat) (σ₀ : Store) {D : WD} (hrun : run P false n σ₀ = .ok D) : AllInv (InvS Γ0) D := by
  have hnone : inductiveCexC cap Γ0 Γ P = .ok none := by
    simp only [checkInductiveC] at h
    obtain ⟨r, hr, h⟩ := bind_ok.mp h
    rw [pure_ok] at h
    cases r with
    | none => exact hr
    | some c => simp at h
  obtain ⟨hF, hat, hne, hsub, ⟨D0, h0, hb0⟩, hstep⟩ := inductiveCexC_none hnone
  refine inv_run P σ₀ (fun Dc hDc => ?_)
    (fun q hq Dq hDq => (stepS_preserves hF hat hne hstep q hq Dq hDq).mono (fun _ hi => subEnv_invS hsub hi))
    n hrun
  have hrel : SRel (theta 0 σ₀) (freeStore (symVars Γ P [])) σ₀ := srel_free _ hat [] (srel_nil _ _)
  exact inv_transferS (pre := [])
    (blockS_sim (θ := theta 0 σ₀) (pre := []) (theta_atom 0 σ₀) P.init (fragmentC_parts hF).1 (ps := ⟨_, []⟩)
      (pc := ⟨σ₀, []⟩) hrel rfl h0 hDc) hb0

/-- **V1 with continuous draws (after at least one iteration)**: the same for all `Γ`-typed variables on
    `run P false (n+1) σ₀`. -/
theorem checkInductiveC_sound {cap : Nat} {Γ0 Γ : TypeEnv} {P : Program}
    (h : checkInductiveC cap Γ0 Γ P = .ok true)
    (n : Nat) (σ₀ : Store) {D : WD} (hrun : run P false (n + 1) σ₀ = .ok D) : AllInv (InvS Γ) D := by
  have hnone : inductiveCexC cap Γ0 Γ P = .ok none := by
    simp only [checkInductiveC] at h
    obtain ⟨r, hr, h⟩ := bind_ok.mp h
    rw [pure_ok] at h
    cases r with
    | none => exact hr
    | some c => simp at h
  obtain ⟨E0, h0, hb⟩ := run_succ hrun
  obtain ⟨hF, hat, hne, _, _, hstep⟩ := inductiveCexC_none hnone
  exact bindW_inv (stepS_preserves hF hat hne hstep) (checkInductiveC_sound0 h n σ₀ h0) hb

/-! ### non-vacuity: `x = 0; f = 0; while true: f = Bernoulli(1/2); z = Normal(x, 1); x = x + f*z` -/

def exPC : Program :=
  { init := [.assign "x" (.expr (.num 0)) .tt "x", .assign "f" (.expr (.num 0)) .tt "f"],
    guard := .tt,
    body := [.assign "f" (.dist "Bernoulli" [.num (1/2)]) .tt "f",
             .assign "z" (.dist "Normal" [.var "x", .num 1]) .tt "z",
             .assign "x" (.expr (.add (.var "x") (.mul (.var "f") (.var "z")))) .tt "x"] }

example : checkInductiveC 4096 exΓ exΓ exPC = .ok true := by decide +kernel
example : checkInductiveC 4096 [("f", [0])] [("f", [0])] exPC = .ok false := by decide +kernel
-- a typed variable that depends on a draw is refuted, a condition on a draw is refused
example : checkInductiveC 4096 [] [("z", [0, 1])] exPC = .ok false := by decide +kernel
example : (checkInductiveC 4096 exΓ exΓ { exPC with guard := .cmp .lt (.var "z") (.num 3) }).isOk = false := by
  decide +kernel
-- the discrete check refuses the program
example : (checkInductive 4096 exΓ exΓ exPC).isOk = false := by decide +kernel

/-- for every n and every initial store: `f`, if set, is (as a function of the draws) the constant 0 or 1 -/
example (n : Nat) (σ₀ : Store) (D : WD) (h : run exPC false n σ₀ = .ok D) :
    ∀ wq ∈ D, wq.1 ≠ 0 → ∀ v, wq.2.vals.get? "f" = some v →
      (∀ τ, MPoly.eval τ v = 0) ∨ (∀ τ, MPoly.eval τ v = 1) := by
  intro wq hwq hne v hv
  have := checkInductiveC_sound0 (cap := 4096) (Γ0 := exΓ) (Γ := exΓ) (P := exPC) (by decide +kernel) n σ₀ h
  obtain ⟨c, hc, hcv⟩ := this wq hwq hne ("f", [0, 1]) (by simp [exΓ]) v hv
  simp only [List.mem_cons, List.not_mem_nil, or_false] at hc
  rcases hc with rfl | rfl
  · exact Or.inl hcv
  · exact Or.inr hcv

-- the run is defined and contains draw atoms (so the statement is not about an empty list)
example : (run exPC false 2 []).isOk = true := by decide +kernel

end Polar.VP
