import Mathlib.Analysis.SpecialFunctions.Integrals.Basic
import Mathlib.Analysis.SpecialFunctions.Gamma.Basic
import Mathlib.Analysis.SpecialFunctions.ExpDeriv
import Mathlib.Analysis.Calculus.IteratedDeriv.Lemmas
import Mathlib.Analysis.SpecialFunctions.Sqrt
import Mathlib.MeasureTheory.Integral.Bochner.Basic
import Mathlib.MeasureTheory.Measure.Dirac
import Mathlib.Algebra.Field.GeomSum
import Mathlib.Tactic
import PolarProofs.Dist

/-!
  C08 — ties of the specification moments (`Polar/Dist.lean`) to the defining integrals / transforms,
  where Mathlib makes them cheap (DESIGN §4 C08, "measure-theoretic ties").
-/

open Finset MeasureTheory Set

namespace Polar.DistProofs
open Polar

/-! ### Normal with an irrational standard deviation -/

theorem normalMoment_isNormalMoments_real (mu s2 : ℚ) :
    IsNormalMoments (mu : ℝ) (s2 : ℝ) (fun k => ((normalMoment mu s2 k : ℚ) : ℝ)) := by
  obtain ⟨h0, h1, h2⟩ := normalMoment_isNormalMoments mu s2
  refine ⟨by simp [h0], by simp [h1], fun k => ?_⟩
  have := congrArg (fun q : ℚ => (q : ℝ)) (h2 k)
  simpa using this

/-- **C08 / DistTransformer._transform_normal**, any variance `s2 ≥ 0`: over ℝ the binomial formula applied to
    `mu + √s2 · t`, `t ~ Normal(0,1)`, gives the moments of `Normal(mu, s2)`, for every order. -/
theorem normalRewrite_real (mu s2 : ℚ) (hs : 0 ≤ s2) (k : ℕ) :
    locScale (mu : ℝ) (Real.sqrt (s2 : ℝ)) (fun j => ((normalMoment 0 1 j : ℚ) : ℝ)) k
      = ((normalMoment mu s2 k : ℚ) : ℝ) := by
  have hz : IsNormalMoments (0 : ℝ) 1 (fun j => ((normalMoment 0 1 j : ℚ) : ℝ)) := by
    have := normalMoment_isNormalMoments_real 0 1; simpa using this
  have h := locScale_normal (mu : ℝ) (Real.sqrt (s2 : ℝ)) _ hz
  rw [Real.sq_sqrt (by exact_mod_cast hs)] at h
  exact h.unique (normalMoment_isNormalMoments_real mu s2) k

example : locScale ((1 : ℚ) : ℝ) (Real.sqrt ((2 : ℚ) : ℝ)) (fun j => ((normalMoment 0 1 j : ℚ) : ℝ)) 3
    = ((normalMoment 1 2 3 : ℚ) : ℝ) := normalRewrite_real 1 2 (by norm_num) 3

/-! ### Uniform(a,b): the specification moment is the integral of `x^k` against the density `1/(b−a)` -/

theorem uniformMoment_integral (a b : ℚ) (h : a ≠ b) (k : ℕ) :
    (∫ x in (a : ℝ)..(b : ℝ), x ^ k * (1 / ((b : ℝ) - (a : ℝ)))) = ((uniformMoment a b k : ℚ) : ℝ) := by
  rw [intervalIntegral.integral_mul_const, integral_pow, ← uniformImpl_eq_spec a b h k, uniformImpl]
  have hba : (b : ℝ) - (a : ℝ) ≠ 0 := by
    have : (b : ℝ) ≠ (a : ℝ) := by exact_mod_cast (Ne.symm h)
    exact sub_ne_zero.mpr this
  have hk : (k : ℝ) + 1 ≠ 0 := by positivity
  push_cast
  field_simp

example : (∫ x in ((0 : ℚ) : ℝ)..((1 : ℚ) : ℝ), x ^ 2 * (1 / (((1 : ℚ) : ℝ) - ((0 : ℚ) : ℝ))))
    = ((uniformMoment 0 1 2 : ℚ) : ℝ) := uniformMoment_integral 0 1 (by norm_num) 2

/-! ### Exponential(λ): `∫₀^∞ x^k · λ e^{−λx} dx = k!/λ^k` -/

theorem exponentialMoment_integral (lam : ℚ) (h : 0 < lam) (k : ℕ) :
    (∫ x in Ioi (0 : ℝ), x ^ k * ((lam : ℝ) * Real.exp (-((lam : ℝ) * x))))
      = ((exponentialMoment lam k : ℚ) : ℝ) := by
  have hl : (0 : ℝ) < (lam : ℝ) := by exact_mod_cast h
  have hk : (0 : ℝ) < (k : ℝ) + 1 := by positivity
  have key := Real.integral_rpow_mul_exp_neg_mul_Ioi hk hl
  have e1 : (∫ x in Ioi (0 : ℝ), x ^ k * ((lam : ℝ) * Real.exp (-((lam : ℝ) * x))))
      = (lam : ℝ) * ∫ x in Ioi (0 : ℝ), x ^ ((k : ℝ) + 1 - 1) * Real.exp (-((lam : ℝ) * x)) := by
    rw [← integral_const_mul]
    refine setIntegral_congr_fun measurableSet_Ioi fun x _ => ?_
    simp only [add_sub_cancel_right, Real.rpow_natCast]
    ring
  rw [e1, key, Real.Gamma_nat_eq_factorial, exponentialMoment, factorial_eq]
  rw [show ((k : ℝ) + 1) = ((k + 1 : ℕ) : ℝ) by push_cast; ring, Real.rpow_natCast]
  have hl' : (lam : ℝ) ≠ 0 := hl.ne'
  push_cast
  rw [one_div, inv_pow, pow_succ]
  field_simp

example : (∫ x in Ioi (0 : ℝ), x ^ 3 * (((2 : ℚ) : ℝ) * Real.exp (-(((2 : ℚ) : ℝ) * x))))
    = ((exponentialMoment 2 3 : ℚ) : ℝ) := exponentialMoment_integral 2 (by norm_num) 3

/-! ### Gamma(k₀, θ): `∫₀^∞ x^j · x^{k₀−1} e^{−x/θ} / (Γ(k₀) θ^{k₀}) dx` is the recurrence moment -/

theorem gammaMoment_mul_Gamma (k0 th : ℚ) (hk : 0 < k0) (j : ℕ) :
    ((gammaMoment k0 th j : ℚ) : ℝ) * Real.Gamma (k0 : ℝ) = (th : ℝ) ^ j * Real.Gamma ((k0 : ℝ) + (j : ℝ)) := by
  induction j with
  | zero => simp [gammaMoment]
  | succ j ih =>
    have hpos : (0 : ℝ) < (k0 : ℝ) + (j : ℝ) := by
      have : (0 : ℝ) < (k0 : ℝ) := by exact_mod_cast hk
      positivity
    have hG : Real.Gamma ((k0 : ℝ) + ((j + 1 : ℕ) : ℝ)) = ((k0 : ℝ) + (j : ℝ)) * Real.Gamma ((k0 : ℝ) + (j : ℝ)) := by
      rw [show (k0 : ℝ) + ((j + 1 : ℕ) : ℝ) = ((k0 : ℝ) + (j : ℝ)) + 1 by push_cast; ring]
      exact Real.Gamma_add_one hpos.ne'
    rw [hG, gammaMoment]
    push_cast
    calc (th : ℝ) * ((k0 : ℝ) + (j : ℝ)) * ((gammaMoment k0 th j : ℚ) : ℝ) * Real.Gamma (k0 : ℝ)
        = (th : ℝ) * ((k0 : ℝ) + (j : ℝ)) * (((gammaMoment k0 th j : ℚ) : ℝ) * Real.Gamma (k0 : ℝ)) := by ring
      _ = (th : ℝ) ^ (j + 1) * (((k0 : ℝ) + (j : ℝ)) * Real.Gamma ((k0 : ℝ) + (j : ℝ))) := by rw [ih]; ring

theorem gammaMoment_integral (k0 th : ℚ) (hk : 0 < k0) (ht : 0 < th) (j : ℕ) :
    (∫ x in Ioi (0 : ℝ), x ^ j * (x ^ ((k0 : ℝ) - 1) * Real.exp (-((1 / (th : ℝ)) * x))
        / (Real.Gamma (k0 : ℝ) * (th : ℝ) ^ (k0 : ℝ))))
      = ((gammaMoment k0 th j : ℚ) : ℝ) := by
  have hk' : (0 : ℝ) < (k0 : ℝ) := by exact_mod_cast hk
  have ht' : (0 : ℝ) < (th : ℝ) := by exact_mod_cast ht
  have hG : 0 < Real.Gamma (k0 : ℝ) := Real.Gamma_pos_of_pos hk'
  have hT : 0 < (th : ℝ) ^ (k0 : ℝ) := Real.rpow_pos_of_pos ht' _
  have ha : (0 : ℝ) < (k0 : ℝ) + (j : ℝ) := by positivity
  have hr : (0 : ℝ) < 1 / (th : ℝ) := by positivity
  have key := Real.integral_rpow_mul_exp_neg_mul_Ioi ha hr
  have e1 : (∫ x in Ioi (0 : ℝ), x ^ j * (x ^ ((k0 : ℝ) - 1) * Real.exp (-((1 / (th : ℝ)) * x))
        / (Real.Gamma (k0 : ℝ) * (th : ℝ) ^ (k0 : ℝ))))
      = (Real.Gamma (k0 : ℝ) * (th : ℝ) ^ (k0 : ℝ))⁻¹ *
          ∫ x in Ioi (0 : ℝ), x ^ ((k0 : ℝ) + (j : ℝ) - 1) * Real.exp (-((1 / (th : ℝ)) * x)) := by
    rw [← integral_const_mul]
    refine setIntegral_congr_fun measurableSet_Ioi fun x hx => ?_
    have hx' : (0 : ℝ) < x := hx
    have : x ^ ((k0 : ℝ) + (j : ℝ) - 1) = x ^ ((k0 : ℝ) - 1) * x ^ j := by
      rw [show (k0 : ℝ) + (j : ℝ) - 1 = ((k0 : ℝ) - 1) + (j : ℝ) by ring, Real.rpow_add hx', Real.rpow_natCast]
    simp only [this]
    field_simp
  have hth : (1 / (1 / (th : ℝ))) ^ ((k0 : ℝ) + (j : ℝ)) = (th : ℝ) ^ (k0 : ℝ) * (th : ℝ) ^ j := by
    rw [one_div_one_div, Real.rpow_add ht', Real.rpow_natCast]
  rw [e1, key, hth]
  have hm := gammaMoment_mul_Gamma k0 th hk j
  have : (th : ℝ) ^ j * Real.Gamma ((k0 : ℝ) + (j : ℝ)) = ((gammaMoment k0 th j : ℚ) : ℝ) * Real.Gamma (k0 : ℝ) := hm.symm
  calc (Real.Gamma (k0 : ℝ) * (th : ℝ) ^ (k0 : ℝ))⁻¹ * ((th : ℝ) ^ (k0 : ℝ) * (th : ℝ) ^ j * Real.Gamma ((k0 : ℝ) + (j : ℝ)))
      = (Real.Gamma (k0 : ℝ) * (th : ℝ) ^ (k0 : ℝ))⁻¹ * ((th : ℝ) ^ (k0 : ℝ) * ((th : ℝ) ^ j * Real.Gamma ((k0 : ℝ) + (j : ℝ)))) := by ring
    _ = ((gammaMoment k0 th j : ℚ) : ℝ) := by rw [this]; field_simp

example : (∫ x in Ioi (0 : ℝ), x ^ 2 * (x ^ (((3/2 : ℚ) : ℝ) - 1) * Real.exp (-((1 / ((2 : ℚ) : ℝ)) * x))
        / (Real.Gamma ((3/2 : ℚ) : ℝ) * ((2 : ℚ) : ℝ) ^ ((3/2 : ℚ) : ℝ))))
      = ((gammaMoment (3/2) 2 2 : ℚ) : ℝ) := gammaMoment_integral _ _ (by norm_num) (by norm_num) 2

/-! ### finite exponential sums: the k-th derivative at 0 of the mgf `Σ_i p_i e^{t v_i}` is `Σ_i p_i v_i^k` -/

theorem iteratedDeriv_finite_mgf {ι : Type*} (I : Finset ι) (p v : ι → ℝ) (k : ℕ) :
    iteratedDeriv k (fun t => ∑ i ∈ I, p i * Real.exp (v i * t)) 0 = ∑ i ∈ I, p i * v i ^ k := by
  have hcd : ∀ i ∈ I, ContDiffAt ℝ k (fun t => p i * Real.exp (v i * t)) 0 := by
    intro i _
    exact (contDiff_const.mul (Real.contDiff_exp.comp (contDiff_const.mul contDiff_id))).contDiffAt
  rw [iteratedDeriv_fun_sum hcd]
  refine sum_congr rfl fun i _ => ?_
  have hc : ContDiffAt ℝ k (fun t => Real.exp (v i * t)) 0 :=
    (Real.contDiff_exp.comp (contDiff_const.mul contDiff_id)).contDiffAt
  rw [iteratedDeriv_const_mul (p i) hc, iteratedDeriv_exp_const_mul]
  simp

/-- mgf of a finite law given as a `(probability, value)` list, and its derivatives at 0 -/
theorem finite_mgf_derivs (pv : List (ℚ × ℚ)) (k : ℕ) :
    iteratedDeriv k (fun t : ℝ => ∑ i : Fin pv.length, ((pv.get i).1 : ℝ) * Real.exp (((pv.get i).2 : ℝ) * t)) 0
      = ((finiteMoment pv k : ℚ) : ℝ) := by
  rw [iteratedDeriv_finite_mgf, finiteMoment_eq_sum]
  push_cast
  rfl

example : iteratedDeriv 2 (fun t : ℝ => ∑ i : Fin (bernoulliPV (1/3)).length,
      (((bernoulliPV (1/3)).get i).1 : ℝ) * Real.exp ((((bernoulliPV (1/3)).get i).2 : ℝ) * t)) 0
    = ((finiteMoment (bernoulliPV (1/3)) 2 : ℚ) : ℝ) := finite_mgf_derivs _ 2

/-! ### a finite law as a measure: `finiteMoment` is the Lebesgue integral of `x^k` -/

/-- the probability measure `Σ_i p_i · δ_{v_i}` on ℝ of a finite law -/
noncomputable def finiteLaw (pv : List (ℚ × ℚ)) : Measure ℝ :=
  ∑ i : Fin pv.length, ENNReal.ofReal ((pv.get i).1 : ℝ) • Measure.dirac ((pv.get i).2 : ℝ)

theorem finiteMoment_integral (pv : List (ℚ × ℚ)) (hp : ∀ x ∈ pv, 0 ≤ x.1) (k : ℕ) :
    ∫ x, x ^ k ∂(finiteLaw pv) = ((finiteMoment pv k : ℚ) : ℝ) := by
  unfold finiteLaw
  have hint : ∀ i ∈ (Finset.univ : Finset (Fin pv.length)),
      Integrable (fun x : ℝ => x ^ k) (ENNReal.ofReal ((pv.get i).1 : ℝ) • Measure.dirac ((pv.get i).2 : ℝ)) := by
    intro i _
    exact (integrable_dirac (by simp)).smul_measure ENNReal.ofReal_ne_top
  rw [integral_finsetSum_measure hint, finiteMoment_eq_sum]
  push_cast
  refine Finset.sum_congr rfl fun i _ => ?_
  have h0 : (0 : ℝ) ≤ ((pv.get i).1 : ℝ) := by exact_mod_cast hp _ (List.get_mem pv i)
  rw [integral_smul_measure, integral_dirac, ENNReal.toReal_ofReal h0, smul_eq_mul]

example : ∫ x, x ^ 3 ∂(finiteLaw (bernoulliPV (1/3))) = ((finiteMoment (bernoulliPV (1/3)) 3 : ℚ) : ℝ) :=
  finiteMoment_integral _ (by intro x hx; simp [bernoulliPV] at hx; rcases hx with rfl | rfl <;> norm_num) 3

/-! ### DiscreteUniform: the closed form of the mgf stated in the code is the finite exponential sum (t ≠ 0) -/

/-- `DiscreteUniform.mgf`: `(e^{a t} − e^{(b+1) t}) / ((b − a + 1)(1 − e^t))` with `b + 1 = a + n`, `n` values.
    For `t ≠ 0` it is the mgf `(1/n) Σ_{i<n} e^{(a+i) t}` of the uniform law on `a, …, a+n−1`; at `t = 0` the
    closed form is `0/0` (a removable singularity; the code special-cases `t = 0` and returns 1 since /repo 2c880c9,
    the harness takes the limit of the generic branch for the derivatives). -/
theorem discreteUniform_mgf_closed (a : ℤ) (n : ℕ) (hn : 0 < n) (t : ℝ) (ht : t ≠ 0) :
    (Real.exp ((a : ℝ) * t) - Real.exp (((a : ℝ) + (n : ℝ)) * t)) / ((n : ℝ) * (1 - Real.exp t))
      = ∑ i ∈ range n, (1 / (n : ℝ)) * Real.exp (((a : ℝ) + (i : ℝ)) * t) := by
  have hx : Real.exp t ≠ 1 := by
    intro h; exact ht (Real.exp_eq_one_iff t |>.mp h)
  have hn' : (n : ℝ) ≠ 0 := by positivity
  have h1 : (1 - Real.exp t) ≠ 0 := sub_ne_zero.mpr (Ne.symm hx)
  have hterm : ∀ i : ℕ, Real.exp (((a : ℝ) + (i : ℝ)) * t) = Real.exp ((a : ℝ) * t) * Real.exp t ^ i := by
    intro i
    rw [← Real.exp_nat_mul, ← Real.exp_add]; congr 1; ring
  simp only [hterm]
  rw [← mul_sum, ← mul_sum, geom_sum_eq hx]
  have h2 : Real.exp t - 1 ≠ 0 := sub_ne_zero.mpr hx
  field_simp
  ring

example : (Real.exp (((-2 : ℤ) : ℝ) * 1) - Real.exp ((((-2 : ℤ) : ℝ) + ((6 : ℕ) : ℝ)) * 1)) / (((6 : ℕ) : ℝ) * (1 - Real.exp 1))
      = ∑ i ∈ range 6, (1 / ((6 : ℕ) : ℝ)) * Real.exp ((((-2 : ℤ) : ℝ) + (i : ℝ)) * 1) :=
  discreteUniform_mgf_closed (-2) 6 (by norm_num) 1 one_ne_zero

end Polar.DistProofs
