import PolarProofs.LinAlgBridge
import Polar.Invariant
import Mathlib.Algebra.MvPolynomial.CommRing
import Mathlib.RingTheory.Ideal.Span
import Mathlib.Tactic

/-!
# Soundness of the certificate checkers of `Polar/Invariant.lean` (C07)

* Part A: `checkMember p gens cofs = true` implies the polynomial identity `p = Σ cofᵢ·genᵢ` under
  every evaluation into a commutative ℚ-algebra (`checkMember_sound_eval`), hence in
  `MvPolynomial String ℚ`, hence `toMv p ∈ Ideal.span (toMv '' gens)` (`checkMember_sound`).
* Part B: `checkKernel c M B free pivR pivC = true` implies that the rows of `B` are a basis of
  `ker M` (`checkKernel_sound`): they lie in the kernel, every kernel vector is the combination of
  the rows of `B` with the coefficients read off at the free columns, and the rows of `B` are
  linearly independent.  Nothing is weakened.
-/

open Polar Polar.LinAlg Matrix

namespace Polar.Inv

noncomputable section

/-! ## Part A — the membership certificate -/

section Eval
variable {A : Type*} [CommRing A]

/-- value of a model monomial under `σ : String → A` -/
def aevalMono (σ : String → A) (m : Mono) : A :=
  m.foldr (fun p acc => σ p.1 ^ p.2 * acc) 1

@[simp] lemma aevalMono_nil (σ : String → A) : aevalMono σ ([] : Mono) = 1 := rfl

@[simp] lemma aevalMono_cons (σ : String → A) (p : String × ℕ) (m : Mono) :
    aevalMono σ (p :: m) = σ p.1 ^ p.2 * aevalMono σ m := rfl

lemma aevalMono_insert (σ : String → A) (x : String) (k : ℕ) (m : Mono) :
    aevalMono σ (Mono.insert x k m) = σ x ^ k * aevalMono σ m := by
  induction m with
  | nil =>
    by_cases hk : k = 0
    · simp [Mono.insert, hk]
    · simp [Mono.insert, hk]
  | cons p m ih =>
    obtain ⟨y, j⟩ := p
    by_cases hk : k = 0
    · simp [Mono.insert, hk]
    · by_cases hxy : x = y
      · subst hxy
        simp only [Mono.insert, hk, ↓reduceIte, aevalMono_cons, pow_add]
        ring
      · by_cases hlt : x < y
        · simp only [Mono.insert, hk, hxy, hlt, ↓reduceIte, aevalMono_cons]
        · simp only [Mono.insert, hk, hxy, hlt, ↓reduceIte, aevalMono_cons, ih]
          ring

lemma aevalMono_norm (σ : String → A) (m : Mono) : aevalMono σ (Mono.norm m) = aevalMono σ m := by
  induction m with
  | nil => rfl
  | cons p m ih =>
    have : Mono.norm (p :: m) = Mono.insert p.1 p.2 (Mono.norm m) := rfl
    rw [this, aevalMono_insert, ih, aevalMono_cons]

lemma aevalMono_mul (σ : String → A) (a b : Mono) :
    aevalMono σ (Mono.mul a b) = aevalMono σ a * aevalMono σ b := by
  induction a with
  | nil => simp [Mono.mul]
  | cons p a ih =>
    have : Mono.mul (p :: a) b = Mono.insert p.1 p.2 (Mono.mul a b) := rfl
    rw [this, aevalMono_insert, ih, aevalMono_cons, mul_assoc]

/-- `Mono.cmp` returns `.eq` only on equal monomials -/
theorem Mono.cmp_eq : ∀ {a b : Mono}, Mono.cmp a b = .eq → a = b
  | [], [], _ => rfl
  | [], _ :: _, h => by simp [Mono.cmp] at h
  | _ :: _, [], h => by simp [Mono.cmp] at h
  | (x, i) :: a, (y, j) :: b, h => by
    rw [Mono.cmp] at h
    split at h
    · cases h
    · cases h
    · rename_i hxy
      split at h
      · cases h
      · cases h
      · rename_i hij
        have h1 : x = y := Std.LawfulEqOrd.compare_eq_iff_eq.mp hxy
        have h2 : i = j := Std.LawfulEqOrd.compare_eq_iff_eq.mp hij
        rw [h1, h2, Mono.cmp_eq h]

/-- ring homomorphisms commute with the evaluation of model monomials -/
lemma map_aevalMono {B : Type*} [CommRing B] (f : A →+* B) (σ : String → A) (m : Mono) :
    f (aevalMono σ m) = aevalMono (fun x => f (σ x)) m := by
  induction m with
  | nil => simp
  | cons p m ih => simp [ih]

variable [Algebra ℚ A]

/-- value of a model polynomial under `σ : String → A` -/
def aevalP (σ : String → A) (p : MPoly) : A :=
  p.foldr (fun t acc => algebraMap ℚ A t.2 * aevalMono σ t.1 + acc) 0

@[simp] lemma aevalP_nil (σ : String → A) : aevalP σ ([] : MPoly) = 0 := rfl

@[simp] lemma aevalP_cons (σ : String → A) (t : Term) (p : MPoly) :
    aevalP σ (t :: p) = algebraMap ℚ A t.2 * aevalMono σ t.1 + aevalP σ p := rfl

lemma aevalP_insertTerm (σ : String → A) (m : Mono) (c : ℚ) (p : MPoly) :
    aevalP σ (MPoly.insertTerm m c p) = algebraMap ℚ A c * aevalMono σ m + aevalP σ p := by
  induction p with
  | nil =>
    by_cases hc : c = 0
    · simp [MPoly.insertTerm, hc]
    · simp [MPoly.insertTerm, hc]
  | cons t p ih =>
    obtain ⟨m', c'⟩ := t
    cases hcmp : Mono.cmp m m' with
    | lt =>
      by_cases hc : c = 0
      · simp [MPoly.insertTerm, hcmp, hc]
      · simp [MPoly.insertTerm, hcmp, hc]
    | eq =>
      have hm : m = m' := Mono.cmp_eq hcmp
      subst hm
      by_cases hcc : c + c' = 0
      · simp only [MPoly.insertTerm, hcmp, hcc, ↓reduceIte, aevalP_cons]
        have h0 : algebraMap ℚ A c + algebraMap ℚ A c' = 0 := by
          rw [← map_add, hcc, map_zero]
        linear_combination (-(aevalMono σ m)) * h0
      · simp only [MPoly.insertTerm, hcmp, hcc, ↓reduceIte, aevalP_cons, map_add]
        ring
    | gt =>
      simp only [MPoly.insertTerm, hcmp, aevalP_cons, ih]
      ring

lemma aevalP_normalize (σ : String → A) (p : MPoly) :
    aevalP σ (MPoly.normalize p) = aevalP σ p := by
  induction p with
  | nil => rfl
  | cons t p ih =>
    have : MPoly.normalize (t :: p) = MPoly.insertTerm (Mono.norm t.1) t.2 (MPoly.normalize p) := rfl
    rw [this, aevalP_insertTerm, ih, aevalMono_norm, aevalP_cons]

lemma aevalP_add (σ : String → A) (p q : MPoly) :
    aevalP σ (MPoly.add p q) = aevalP σ p + aevalP σ q := by
  induction p with
  | nil => simp [MPoly.add]
  | cons t p ih =>
    have : MPoly.add (t :: p) q = MPoly.insertTerm t.1 t.2 (MPoly.add p q) := rfl
    rw [this, aevalP_insertTerm, ih, aevalP_cons, add_assoc]

lemma aevalP_neg (σ : String → A) (p : MPoly) : aevalP σ (MPoly.neg p) = - aevalP σ p := by
  induction p with
  | nil => simp [MPoly.neg]
  | cons t p ih =>
    have : MPoly.neg (t :: p) = (t.1, -t.2) :: MPoly.neg p := rfl
    rw [this, aevalP_cons, ih, aevalP_cons]
    simp only [map_neg]
    ring

lemma aevalP_sub (σ : String → A) (p q : MPoly) :
    aevalP σ (MPoly.sub p q) = aevalP σ p - aevalP σ q := by
  rw [MPoly.sub, aevalP_add, aevalP_neg, sub_eq_add_neg]

lemma aevalP_mulTerm (σ : String → A) (m : Mono) (c : ℚ) (q : MPoly) :
    aevalP σ (MPoly.mulTerm m c q) = algebraMap ℚ A c * aevalMono σ m * aevalP σ q := by
  induction q with
  | nil => simp [MPoly.mulTerm]
  | cons t q ih =>
    have : MPoly.mulTerm m c (t :: q) =
        MPoly.insertTerm (Mono.mul m t.1) (c * t.2) (MPoly.mulTerm m c q) := rfl
    rw [this, aevalP_insertTerm, ih, aevalMono_mul, aevalP_cons, map_mul]
    ring

lemma aevalP_mul (σ : String → A) (p q : MPoly) :
    aevalP σ (MPoly.mul p q) = aevalP σ p * aevalP σ q := by
  induction p with
  | nil => simp [MPoly.mul]
  | cons t p ih =>
    have : MPoly.mul (t :: p) q = MPoly.add (MPoly.mulTerm t.1 t.2 q) (MPoly.mul p q) := rfl
    rw [this, aevalP_add, aevalP_mulTerm, ih, aevalP_cons]
    ring

lemma aevalP_sumProd (σ : String → A) (cs gs : List MPoly) :
    aevalP σ (sumProd cs gs) = (List.zipWith (fun c g => aevalP σ c * aevalP σ g) cs gs).sum := by
  induction cs generalizing gs with
  | nil => simp [sumProd]
  | cons c cs ih =>
    cases gs with
    | nil => simp [sumProd]
    | cons g gs => simp [sumProd, aevalP_add, aevalP_mul, ih]

lemma aevalP_sumProd_normalize (σ : String → A) (cs gs : List MPoly) :
    aevalP σ (sumProd (cs.map MPoly.normalize) (gs.map MPoly.normalize)) =
      (List.zipWith (fun c g => aevalP σ c * aevalP σ g) cs gs).sum := by
  induction cs generalizing gs with
  | nil => simp [sumProd]
  | cons c cs ih =>
    cases gs with
    | nil => simp [sumProd]
    | cons g gs => simp [sumProd, aevalP_add, aevalP_mul, aevalP_normalize, ih]

/-- **Soundness of the membership certificate, evaluated form**: an accepted certificate is a
polynomial identity `p = Σ cofᵢ·genᵢ` valid at every point of every commutative ℚ-algebra. -/
theorem checkMember_sound_eval (σ : String → A) {p : MPoly} {gens cofs : List MPoly}
    (h : checkMember p gens cofs = true) :
    aevalP σ p = (List.zipWith (fun c g => aevalP σ c * aevalP σ g) cofs gens).sum := by
  simp only [checkMember, Bool.and_eq_true, List.isEmpty_iff] at h
  have h0 := congrArg (aevalP σ) h.2
  rw [aevalP_sub, aevalP_normalize, aevalP_sumProd_normalize, aevalP_nil, sub_eq_zero] at h0
  exact h0

/-- algebra homomorphisms commute with the evaluation of model polynomials -/
lemma map_aevalP {B : Type*} [CommRing B] [Algebra ℚ B] (f : A →ₐ[ℚ] B) (σ : String → A)
    (p : MPoly) : f (aevalP σ p) = aevalP (fun x => f (σ x)) p := by
  induction p with
  | nil => simp
  | cons t p ih =>
    rw [aevalP_cons, aevalP_cons, map_add, map_mul, ih, AlgHom.commutes]
    congr 2
    exact map_aevalMono f.toRingHom σ t.1

end Eval

/-- over `ℚ` the generic evaluation is the model's own `MPoly.eval` -/
lemma aevalP_eq_eval (σ : String → ℚ) (p : MPoly) : aevalP σ p = MPoly.eval σ p := by
  induction p with
  | nil => rfl
  | cons t p ih =>
    have h1 : MPoly.eval σ (t :: p) = t.2 * Mono.eval σ t.1 + MPoly.eval σ p := rfl
    have h2 : aevalMono σ t.1 = Mono.eval σ t.1 := rfl
    rw [aevalP_cons, h1, ih, h2, eq_ratCast, Rat.cast_id]

/-- the model polynomial as a Mathlib multivariate polynomial -/
def toMv (p : MPoly) : MvPolynomial String ℚ := aevalP MvPolynomial.X p

lemma aeval_toMv {A : Type*} [CommRing A] [Algebra ℚ A] (σ : String → A) (p : MPoly) :
    MvPolynomial.aeval σ (toMv p) = aevalP σ p := by
  rw [toMv, map_aevalP]
  simp only [MvPolynomial.aeval_X]

lemma sum_zipWith_mem {R : Type*} [CommRing R] (I : Ideal R) {α β : Type*} (u : α → R) (v : β → R) :
    ∀ (cs : List α) (gs : List β), (∀ g ∈ gs, v g ∈ I) →
      (List.zipWith (fun c g => u c * v g) cs gs).sum ∈ I
  | [], _, _ => by simp
  | _ :: _, [], _ => by simp
  | c :: cs, g :: gs, h => by
    rw [List.zipWith_cons_cons, List.sum_cons]
    exact I.add_mem (I.mul_mem_left _ (h g (List.mem_cons_self ..)))
      (sum_zipWith_mem I u v cs gs (fun g' hg' => h g' (List.mem_cons_of_mem _ hg')))

/-- **Soundness of the membership certificate**: an accepted certificate puts `p` into the ideal
generated by `gens` in `ℚ[String]`. -/
theorem checkMember_sound {p : MPoly} {gens cofs : List MPoly}
    (h : checkMember p gens cofs = true) :
    toMv p ∈ Ideal.span {q | ∃ g ∈ gens, q = toMv g} := by
  have h1 := checkMember_sound_eval (A := MvPolynomial String ℚ) MvPolynomial.X h
  rw [toMv, h1]
  exact sum_zipWith_mem _ (aevalP MvPolynomial.X) (aevalP MvPolynomial.X) cofs gens
    (fun g hg => Ideal.subset_span ⟨g, hg, rfl⟩)

/-- non-vacuity: `x² − y² = (x − y)·(x + y)` is accepted -/
example : checkMember [([("x", 2)], 1), ([("y", 2)], -1)]
    [[([("x", 1)], 1), ([("y", 1)], 1)]] [[([("x", 1)], 1), ([("y", 1)], -1)]] = true := by
  decide +kernel

example : toMv [([("x", 2)], 1), ([("y", 2)], -1)] ∈
    Ideal.span {q | ∃ g ∈ [[([("x", 1)], (1 : ℚ)), ([("y", 1)], 1)]], q = toMv g} :=
  checkMember_sound (cofs := [[([("x", 1)], 1), ([("y", 1)], -1)]]) (by decide +kernel)

/-- a wrong certificate is rejected -/
example : checkMember [([("x", 2)], 1), ([("y", 2)], 1)]
    [[([("x", 1)], 1), ([("y", 1)], 1)]] [[([("x", 1)], 1), ([("y", 1)], -1)]] = false := by
  decide +kernel

end

/-! ## Part B — the kernel certificate -/

lemma entry_eq_getElem {M : Mat} {r : ℕ} (hr : r < M.length) (j : ℕ) :
    entry M r j = (M[r]).getD j 0 := by
  simp [entry, List.getD_eq_getElem?_getD, hr]

lemma entry_row_ge {M : Mat} {r : ℕ} (hr : M.length ≤ r) (j : ℕ) : entry M r j = 0 := by
  simp [entry, List.getD_eq_getElem?_getD, hr]

lemma entry_col_ge {c : ℕ} {M : Mat} (hM : ∀ row ∈ M, row.length = c) (r : ℕ) {j : ℕ}
    (hj : c ≤ j) : entry M r j = 0 := by
  by_cases hr : r < M.length
  · rw [entry_eq_getElem hr]
    have := hM _ (List.getElem_mem hr)
    simp [List.getD_eq_getElem?_getD, this, hj]
  · exact entry_row_ge (by omega) j

lemma entry_minor (M : Mat) (rs cs : List ℕ) {a b : ℕ} (ha : a < rs.length) (hb : b < cs.length) :
    entry (minor M rs cs) a b = entry M (rs.getD a 0) (cs.getD b 0) := by
  simp [entry, minor, List.getD_eq_getElem?_getD, ha, hb]

lemma sum_map_eq_sum_range (l : List ℕ) (f : ℕ → ℚ) :
    (l.map f).sum = ∑ b ∈ Finset.range l.length, f (l.getD b 0) := by
  induction l with
  | nil => simp
  | cons a l ih =>
    rw [List.map_cons, List.sum_cons, List.length_cons, Finset.sum_range_succ', ih, add_comm]
    simp

/-- `Σ_j M[r][j]·v[j]` is `dot` on rows of length `c`; rows beyond `M` are zero rows -/
lemma sum_entry_mul_getD {c : ℕ} {M : Mat} (hM : ∀ row ∈ M, row.length = c) (v : List ℚ)
    (hv : ∀ row ∈ M, dot row v = 0) (r : ℕ) :
    ∑ j ∈ Finset.range c, entry M r j * v.getD j 0 = 0 := by
  by_cases hr : r < M.length
  · have hmem := List.getElem_mem hr
    have h0 := hv _ hmem
    rw [dot_eq_sum_range _ _ c (le_of_eq (hM _ hmem))] at h0
    refine Eq.trans ?_ h0
    exact Finset.sum_congr rfl (fun j _ => by rw [entry_eq_getElem hr])
  · exact Finset.sum_eq_zero (fun j _ => by rw [entry_row_ge (by omega), zero_mul])

/-- the facts checked by `checkKernel`, unpacked -/
structure KernelCert (c : ℕ) (M B : Mat) (free pivR pivC : List ℕ) : Prop where
  hM : ∀ row ∈ M, row.length = c
  hB : ∀ b ∈ B, b.length = c
  hker : ∀ row ∈ M, ∀ b ∈ B, dot row b = 0
  hfree : free.length = B.length
  hid : ∀ i, i < B.length → ∀ j, j < free.length →
    entry B i (free.getD j 0) = if i = j then (1 : ℚ) else 0
  hnd : pivC.Nodup
  hpc : ∀ j ∈ pivC, j < c
  hcov : ∀ j, j < c → j ∈ free ∨ j ∈ pivC
  hrl : pivR.length = pivC.length
  hsz : pivC.length + B.length = c
  hinv : ∃ N : Mat, isLeftInverse pivC.length N (minor M pivR pivC) = true

lemma checkKernel_unpack {c : ℕ} {M B : Mat} {free pivR pivC : List ℕ}
    (h : checkKernel c M B free pivR pivC = true) : KernelCert c M B free pivR pivC := by
  simp only [checkKernel, identityBlock, Bool.and_eq_true, List.all_eq_true, beq_iff_eq,
    decide_eq_true_eq, Bool.or_eq_true, List.contains_iff_mem, List.mem_range] at h
  obtain ⟨⟨⟨⟨⟨⟨⟨⟨⟨⟨hM, hB⟩, hker⟩, hfree⟩, hid⟩, hnd⟩, hpc⟩, hcov⟩, hrl⟩, hsz⟩, hinv⟩ := h
  refine ⟨hM, hB, hker, hfree, hid, hnd, hpc, hcov, hrl, hsz, ?_⟩
  split at hinv
  · cases hinv
  · rename_i N _
    exact ⟨N, hinv⟩

/-- `isLeftInverse r N S` gives the Mathlib matrix identity `N * S = 1` -/
lemma isLeftInverse_toMatrix {r : ℕ} {N S : Mat} (h : isLeftInverse r N S = true) :
    toMatrix r N * toMatrix r S = 1 := by
  simp only [isLeftInverse, Bool.and_eq_true, beq_iff_eq] at h
  obtain ⟨⟨⟨hN, hS⟩, hlen⟩, hmul⟩ := h
  have hN' := ((wellFormed_iff _ _).mp hN).2
  have hS' := ((wellFormed_iff _ _).mp hS).2
  have hSlen : S.length = r := by
    have := ((wellFormed_iff _ _).mp hS).1
    simpa using this.symm
  rw [hlen] at hN'
  rw [hSlen] at hS'
  rw [← toMatrix_matMul hN' hS', hmul, toMatrix_identity]

/-- a square list matrix with a left inverse has trivial kernel -/
lemma eq_zero_of_isLeftInverse {r : ℕ} {N S : Mat} (h : isLeftInverse r N S = true)
    (w : ℕ → ℚ) (hw : ∀ a, a < r → ∑ b ∈ Finset.range r, entry S a b * w b = 0) :
    ∀ b, b < r → w b = 0 := by
  have hNS := isLeftInverse_toMatrix h
  let w' : Fin r → ℚ := fun b => w b.val
  have hSw : toMatrix r S *ᵥ w' = 0 := by
    funext a
    have := hw a.val a.isLt
    rw [Finset.sum_range] at this
    simpa [Matrix.mulVec, dotProduct, toMatrix, entry, w'] using this
  have hw0 : w' = 0 := by
    calc w' = (1 : Matrix (Fin r) (Fin r) ℚ) *ᵥ w' := (Matrix.one_mulVec w').symm
      _ = (toMatrix r N * toMatrix r S) *ᵥ w' := by rw [hNS]
      _ = toMatrix r N *ᵥ (toMatrix r S *ᵥ w') := (Matrix.mulVec_mulVec _ _ _).symm
      _ = 0 := by rw [hSw, Matrix.mulVec_zero]
  intro b hb
  exact congrFun hw0 ⟨b, hb⟩

/-- core of the spanning argument: a vector `y` that is killed by all rows of `M` and vanishes on
the free columns vanishes on all `c` columns -/
lemma KernelCert.eq_zero {c : ℕ} {M B : Mat} {free pivR pivC : List ℕ}
    (K : KernelCert c M B free pivR pivC) (y : ℕ → ℚ)
    (hy : ∀ r, ∑ j ∈ Finset.range c, entry M r j * y j = 0)
    (hfr : ∀ i, i < B.length → y (free.getD i 0) = 0) :
    ∀ j, j < c → y j = 0 := by
  -- (c) `y` vanishes outside the pivot columns
  have hC : ∀ j, j < c → j ∉ pivC → y j = 0 := by
    intro j hj hjp
    rcases K.hcov j hj with hf | hp
    · obtain ⟨n, hn, rfl⟩ := List.getElem_of_mem hf
      have := hfr n (K.hfree ▸ hn)
      simpa [List.getD_eq_getElem?_getD, hn] using this
    · exact absurd hp hjp
  -- (d) the pivot minor kills the restriction of `y` to the pivot columns
  have hD : ∀ a, a < pivC.length →
      ∑ b ∈ Finset.range pivC.length, entry (minor M pivR pivC) a b * y (pivC.getD b 0) = 0 := by
    intro a ha
    have h1 : ∑ b ∈ Finset.range pivC.length, entry (minor M pivR pivC) a b * y (pivC.getD b 0)
        = ∑ b ∈ Finset.range pivC.length,
            (fun j => entry M (pivR.getD a 0) j * y j) (pivC.getD b 0) :=
      Finset.sum_congr rfl (fun b hb => by
        rw [entry_minor M pivR pivC (K.hrl ▸ ha) (Finset.mem_range.mp hb)])
    rw [h1, ← sum_map_eq_sum_range pivC (fun j => entry M (pivR.getD a 0) j * y j),
      ← List.sum_toFinset _ K.hnd, ← hy (pivR.getD a 0)]
    apply Finset.sum_subset
    · intro j hj
      exact Finset.mem_range.mpr (K.hpc j (List.mem_toFinset.mp hj))
    · intro j hj hjn
      rw [hC j (Finset.mem_range.mp hj) (fun hp => hjn (List.mem_toFinset.mpr hp)), mul_zero]
  -- (e) the minor is invertible
  obtain ⟨N, hN⟩ := K.hinv
  have hE := eq_zero_of_isLeftInverse hN (fun b => y (pivC.getD b 0)) hD
  intro j hj
  by_cases hjp : j ∈ pivC
  · obtain ⟨n, hn, rfl⟩ := List.getElem_of_mem hjp
    have := hE n hn
    simpa [List.getD_eq_getElem?_getD, hn] using this
  · exact hC j hj hjp

/-- the free columns are genuine columns (the identity block has a `1` there) -/
lemma KernelCert.free_lt {c : ℕ} {M B : Mat} {free pivR pivC : List ℕ}
    (K : KernelCert c M B free pivR pivC) {i : ℕ} (hi : i < B.length) : free.getD i 0 < c := by
  by_contra hge
  have h1 := K.hid i hi i (K.hfree ▸ hi)
  rw [entry_col_ge K.hB i (by omega)] at h1
  simp at h1

/-- **Soundness of the kernel certificate**: the rows of `B` lie in `ker M`, every kernel vector is
the combination of the rows of `B` with the coefficients read off at the free columns, and the rows
of `B` are linearly independent — i.e. the rows of `B` are a basis of `ker M`. -/
theorem checkKernel_sound {c : ℕ} {M B : Mat} {free pivR pivC : List ℕ}
    (h : checkKernel c M B free pivR pivC = true) :
    (∀ row ∈ M, ∀ b ∈ B, dot row b = 0) ∧
    (∀ x : List ℚ, x.length = c → (∀ row ∈ M, dot row x = 0) → ∀ j, j < c →
      x.getD j 0 = ∑ i ∈ Finset.range B.length, x.getD (free.getD i 0) 0 * entry B i j) ∧
    (∀ z : ℕ → ℚ, (∀ j, j < c → ∑ i ∈ Finset.range B.length, z i * entry B i j = 0) →
      ∀ i, i < B.length → z i = 0) := by
  have K := checkKernel_unpack h
  refine ⟨K.hker, ?_, ?_⟩
  · intro x _ hx j hj
    let y : ℕ → ℚ := fun j =>
      x.getD j 0 - ∑ i ∈ Finset.range B.length, x.getD (free.getD i 0) 0 * entry B i j
    -- every row of `B` is killed by every row of `M`
    have hMB : ∀ r i, i < B.length → ∑ j ∈ Finset.range c, entry M r j * entry B i j = 0 := by
      intro r i hi
      have := sum_entry_mul_getD K.hM B[i] (fun row hrow => K.hker row hrow _ (List.getElem_mem hi)) r
      rw [← this]
      exact Finset.sum_congr rfl (fun j _ => by rw [entry_eq_getElem hi])
    have hy : ∀ r, ∑ j ∈ Finset.range c, entry M r j * y j = 0 := by
      intro r
      have h1 : ∑ j ∈ Finset.range c, entry M r j * y j =
          (∑ j ∈ Finset.range c, entry M r j * x.getD j 0) -
            ∑ i ∈ Finset.range B.length, x.getD (free.getD i 0) 0 *
              ∑ j ∈ Finset.range c, entry M r j * entry B i j := by
        simp only [y, mul_sub, Finset.sum_sub_distrib, Finset.mul_sum]
        congr 1
        rw [Finset.sum_comm]
        exact Finset.sum_congr rfl (fun i _ => Finset.sum_congr rfl (fun j _ => by ring))
      rw [h1, sum_entry_mul_getD K.hM x hx r]
      rw [Finset.sum_eq_zero (fun i hi => by rw [hMB r i (Finset.mem_range.mp hi), mul_zero]),
        sub_zero]
    have hfr : ∀ i, i < B.length → y (free.getD i 0) = 0 := by
      intro i' hi'
      have h1 : ∑ i ∈ Finset.range B.length, x.getD (free.getD i 0) 0 * entry B i (free.getD i' 0)
          = ∑ i ∈ Finset.range B.length,
              if i = i' then x.getD (free.getD i 0) 0 else 0 :=
        Finset.sum_congr rfl (fun i hi => by
          rw [K.hid i (Finset.mem_range.mp hi) i' (K.hfree ▸ hi')]
          split <;> simp)
      simp only [y]
      rw [h1, Finset.sum_ite_eq' , if_pos (Finset.mem_range.mpr hi'), sub_self]
    have := K.eq_zero y hy hfr j hj
    exact sub_eq_zero.mp this
  · intro z hz i' hi'
    have h1 := hz _ (K.free_lt hi')
    have h2 : ∑ i ∈ Finset.range B.length, z i * entry B i (free.getD i' 0)
        = ∑ i ∈ Finset.range B.length, if i = i' then z i else 0 :=
      Finset.sum_congr rfl (fun i hi => by
        rw [K.hid i (Finset.mem_range.mp hi) i' (K.hfree ▸ hi')]
        split <;> simp)
    rw [h2, Finset.sum_ite_eq', if_pos (Finset.mem_range.mpr hi')] at h1
    exact h1

/-- non-vacuity: the sequences `1, 2ⁿ, 4ⁿ` at `n = 0, 1`; the kernel is spanned by `(2, −3, 1)` -/
example : checkKernel 3 [[1, 1, 1], [1, 2, 4]] [[2, -3, 1]] [2] [0, 1] [0, 1] = true := by
  decide +kernel

/-- a vector outside the kernel is rejected -/
example : checkKernel 3 [[1, 1, 1], [1, 2, 4]] [[1, 0, 0]] [0] [0, 1] [1, 2] = false := by
  decide +kernel

/-- a kernel vector that does not span (the all-zero matrix has a 3-dimensional kernel) is rejected -/
example : checkKernel 3 [[0, 0, 0]] [[2, -3, 1]] [2] [0, 1] [0, 1] = false := by
  decide +kernel

/-- consequence of `checkKernel_sound` for the positive instance: every kernel vector of
`[[1,1,1],[1,2,4]]` is `x₂ · (2, −3, 1)` -/
example (x : List ℚ) (hx : x.length = 3)
    (h : ∀ row ∈ ([[1, 1, 1], [1, 2, 4]] : Mat), dot row x = 0) (j : ℕ) (hj : j < 3) :
    x.getD j 0 = ∑ i ∈ Finset.range 1, x.getD (([2] : List ℕ).getD i 0) 0 *
      entry [[2, -3, 1]] i j :=
  (checkKernel_sound (c := 3) (M := [[1, 1, 1], [1, 2, 4]]) (B := [[2, -3, 1]]) (free := [2])
    (pivR := [0, 1]) (pivC := [0, 1]) (by decide +kernel)).2.1 x hx h j hj

end Polar.Inv
