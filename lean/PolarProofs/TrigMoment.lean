import Mathlib.Analysis.SpecialFunctions.Trigonometric.Basic
import Mathlib.Analysis.SpecialFunctions.ExpDeriv
import Mathlib.Analysis.Calculus.IteratedDeriv.Defs
import Mathlib.Data.Nat.Choose.Sum
import Mathlib.Analysis.SpecialFunctions.ImproperIntegrals
import Mathlib.Analysis.SpecialFunctions.Gaussian.GaussianIntegral
import Mathlib.MeasureTheory.Measure.Lebesgue.Basic
import Mathlib.Tactic
import Polar.TrigMoment

/-!
C13 — the combination formulas behind `FunctionalAssignment.get_func_moment`.

* `trig_product_to_sum`   : pointwise identity  sin^b z cos^c z = (i^b 2^(b+c))⁻¹ Σ C(c,k1) C(b,k2) (−1)^(b−k2) e^{i(2(k1+k2)−b−c)z}
* `trig_table_pointwise`  : the same with the coefficient table of the model (`Polar.Trig.trigTable`)
* `cfD_iteratedDeriv`     : for a finite law the a-th derivative of φ(t) = Σ p_j e^{i t x_j} is Σ p_j (i x_j)^a e^{i t x_j}
* `trig_moment_formula`   : the coded formula (table, divisor, real part) is Σ p_j x_j^a sin^b x_j cos^c x_j
* `trig_moment_formula_coded` : the same with the frequency-0 terms taken from the raw moment, as coded since /repo c7c1f2a
* `exp_moment_formula`    : Σ p_j x_j^a e^{c x_j} = M^(a)(c)
* `route_coded_eq_intended`, `mix_rejected`, `plan_coded_sound` : the guard of `get_func_moment` (full statement since /repo e78913c)
* `mgfExists{Exponential,Gamma,Laplace}_correct` : the model of `mgf_exists_at` decides integrability of e^{tx} f(x)
-/

open Complex Finset

namespace TrigMoment
open Polar.Trig

/-! ### model binomial = Mathlib binomial -/

theorem choose_eq (n k : ℕ) : Polar.Trig.choose n k = Nat.choose n k := by
  induction n generalizing k with
  | zero => cases k <;> simp [Polar.Trig.choose]
  | succ n ih =>
    cases k with
    | zero => simp [Polar.Trig.choose]
    | succ k => simp [Polar.Trig.choose, ih, Nat.choose_succ_succ]

/-! ### pointwise product-to-sum identity -/

lemma sin_mul_two_I (z : ℂ) : Complex.sin z * (2 * I) = exp (z * I) - exp (-z * I) := by
  have h : Complex.sin z = (exp (-z * I) - exp (z * I)) * I / 2 := rfl
  rw [h]
  have hI : I * I = -1 := I_mul_I
  have h2 : (exp (-z * I) - exp (z * I)) * I / 2 * (2 * I)
      = (exp (-z * I) - exp (z * I)) * (I * I) := by ring
  rw [h2, hI]; ring

lemma cos_mul_two (z : ℂ) : Complex.cos z * 2 = exp (z * I) + exp (-z * I) := by
  have h : Complex.cos z = (exp (z * I) + exp (-z * I)) / 2 := rfl
  rw [h]; ring

/-- one term of the double sum: u^{k1} v^{c−k1} · u^{k2} (−v)^{b−k2} with u = e^{iz}, v = e^{−iz} -/
lemma term_eq (z : ℂ) {b c k1 k2 : ℕ} (h1 : k1 ≤ c) (h2 : k2 ≤ b) :
    (exp (z * I) ^ k1 * exp (-z * I) ^ (c - k1) * (c.choose k1 : ℂ)) *
      (exp (z * I) ^ k2 * (-exp (-z * I)) ^ (b - k2) * (b.choose k2 : ℂ))
    = ((coeff b c k1 k2 : ℤ) : ℂ) * exp (I * ((freq b c k1 k2 : ℤ) : ℂ) * z) := by
  have e1 : exp (z * I) ^ k1 = exp ((k1 : ℂ) * (z * I)) := (Complex.exp_nat_mul _ _).symm
  have e2 : exp (-z * I) ^ (c - k1) = exp (((c - k1 : ℕ) : ℂ) * (-z * I)) := (Complex.exp_nat_mul _ _).symm
  have e3 : exp (z * I) ^ k2 = exp ((k2 : ℂ) * (z * I)) := (Complex.exp_nat_mul _ _).symm
  have e4 : exp (-z * I) ^ (b - k2) = exp (((b - k2 : ℕ) : ℂ) * (-z * I)) := (Complex.exp_nat_mul _ _).symm
  have hexp : exp ((k1 : ℂ) * (z * I)) * exp (((c - k1 : ℕ) : ℂ) * (-z * I)) *
      (exp ((k2 : ℂ) * (z * I)) * exp (((b - k2 : ℕ) : ℂ) * (-z * I)))
      = exp (I * ((freq b c k1 k2 : ℤ) : ℂ) * z) := by
    rw [← Complex.exp_add, ← Complex.exp_add, ← Complex.exp_add]
    congr 1
    simp only [freq]
    push_cast [Nat.cast_sub h1, Nat.cast_sub h2]
    ring
  have hc : ((coeff b c k1 k2 : ℤ) : ℂ) = (c.choose k1 : ℂ) * (b.choose k2 : ℂ) * (-1) ^ (b - k2) := by
    simp only [coeff, choose_eq]
    push_cast
    ring
  rw [neg_pow, e1, e2, e3, e4, hc, ← hexp]
  ring

/-- **Product-to-sum**, for every complex `z` (in particular every real x) and all naturals b, c. -/
theorem trig_product_to_sum (z : ℂ) (b c : ℕ) :
    Complex.sin z ^ b * Complex.cos z ^ c =
      (I ^ b * 2 ^ (b + c))⁻¹ *
        ∑ k1 ∈ range (c + 1), ∑ k2 ∈ range (b + 1),
          ((c.choose k1 : ℂ) * (b.choose k2 : ℂ) * (-1) ^ (b - k2)) *
            exp (I * (2 * ((k1 : ℂ) + (k2 : ℂ)) - (b : ℂ) - (c : ℂ)) * z) := by
  have hN : (I ^ b * 2 ^ (b + c) : ℂ) ≠ 0 := by
    apply mul_ne_zero (pow_ne_zero _ I_ne_zero) (pow_ne_zero _ two_ne_zero)
  rw [eq_inv_mul_iff_mul_eq₀ hN]
  have hprod : (I ^ b * 2 ^ (b + c) : ℂ) * (Complex.sin z ^ b * Complex.cos z ^ c)
      = (exp (z * I) + exp (-z * I)) ^ c * (exp (z * I) + -exp (-z * I)) ^ b := by
    rw [← cos_mul_two, ← sub_eq_add_neg, ← sin_mul_two_I]
    rw [mul_pow, mul_pow, mul_pow, pow_add]
    ring
  rw [hprod, add_pow, add_pow, Finset.sum_mul_sum]
  apply Finset.sum_congr rfl
  intro k1 hk1
  apply Finset.sum_congr rfl
  intro k2 hk2
  have h1 : k1 ≤ c := Nat.lt_succ_iff.mp (Finset.mem_range.mp hk1)
  have h2 : k2 ≤ b := Nat.lt_succ_iff.mp (Finset.mem_range.mp hk2)
  rw [term_eq z h1 h2]
  have hc : ((coeff b c k1 k2 : ℤ) : ℂ) = (c.choose k1 : ℂ) * (b.choose k2 : ℂ) * (-1) ^ (b - k2) := by
    simp only [coeff, choose_eq]
    push_cast
    ring
  have hf : ((freq b c k1 k2 : ℤ) : ℂ) = 2 * ((k1 : ℂ) + (k2 : ℂ)) - (b : ℂ) - (c : ℂ) := by
    simp only [freq]
    push_cast
    ring
  rw [hc, hf]

/-! ### the coefficient table of the model -/

/-- value of a coefficient table on a family `F` of "transform values at integer frequencies" -/
def evalTable (T : List (ℤ × ℤ)) (F : ℤ → ℂ) : ℂ := (T.map fun t => ((t.2 : ℤ) : ℂ) * F t.1).sum

lemma list_range_map_sum (n : ℕ) (g : ℕ → ℂ) : ((List.range n).map g).sum = ∑ i ∈ range n, g i := by
  induction n with
  | zero => simp
  | succ n ih => simp [List.range_succ, Finset.sum_range_succ, ih]

lemma list_flatMap_map_sum {α β : Type} (l : List α) (f : α → List β) (g : β → ℂ) :
    ((l.flatMap f).map g).sum = (l.map fun a => ((f a).map g).sum).sum := by
  induction l with
  | nil => simp
  | cons a l ih => simp [List.flatMap_cons, ih]

/-- the model's table, evaluated, is the double sum over `k1 ≤ c`, `k2 ≤ b` -/
theorem evalTable_trigTable (b c : ℕ) (F : ℤ → ℂ) :
    evalTable (trigTable b c) F =
      ∑ k1 ∈ range (c + 1), ∑ k2 ∈ range (b + 1),
        ((coeff b c k1 k2 : ℤ) : ℂ) * F (freq b c k1 k2) := by
  unfold evalTable trigTable
  rw [list_flatMap_map_sum, list_range_map_sum]
  apply Finset.sum_congr rfl
  intro k1 _
  rw [List.map_map, list_range_map_sum]
  rfl

/-- **Product-to-sum with the model's table**: the coefficients and frequencies of
    `Polar.Trig.trigTable b c` are exactly those of the identity. -/
theorem trig_table_pointwise (z : ℂ) (b c : ℕ) :
    Complex.sin z ^ b * Complex.cos z ^ c =
      (I ^ b * 2 ^ (b + c))⁻¹ * evalTable (trigTable b c) (fun ω => exp (I * (ω : ℂ) * z)) := by
  rw [trig_product_to_sum, evalTable_trigTable]
  congr 1
  apply Finset.sum_congr rfl
  intro k1 _
  apply Finset.sum_congr rfl
  intro k2 _
  have hc : ((coeff b c k1 k2 : ℤ) : ℂ) = (c.choose k1 : ℂ) * (b.choose k2 : ℂ) * (-1) ^ (b - k2) := by
    simp only [coeff, choose_eq]
    push_cast
    ring
  have hf : ((freq b c k1 k2 : ℤ) : ℂ) = 2 * ((k1 : ℂ) + (k2 : ℂ)) - (b : ℂ) - (c : ℂ) := by
    simp only [freq]
    push_cast
    ring
  rw [hc, hf]

example : trigTable 1 1 = [(-2, -1), (0, 1), (0, -1), (2, 1)] := by decide

/-- linearity of the table evaluation (this is "linearity of expectation" for finite laws) -/
lemma evalTable_sum {ι : Type*} (T : List (ℤ × ℤ)) (s : Finset ι) (g : ι → ℤ → ℂ) :
    evalTable T (fun ω => ∑ j ∈ s, g j ω) = ∑ j ∈ s, evalTable T (g j) := by
  have h : (T.map fun t => ((t.2 : ℤ) : ℂ) * ∑ j ∈ s, g j t.1).sum
      = ∑ j ∈ s, (T.map fun t => ((t.2 : ℤ) : ℂ) * g j t.1).sum := by
    induction T with
    | nil => simp
    | cons t T ih =>
      rw [List.map_cons, List.sum_cons, ih, Finset.mul_sum, ← Finset.sum_add_distrib]
      apply Finset.sum_congr rfl
      intro j _
      rw [List.map_cons, List.sum_cons]
  exact h

lemma evalTable_const_mul (T : List (ℤ × ℤ)) (k : ℂ) (F : ℤ → ℂ) :
    evalTable T (fun ω => k * F ω) = k * evalTable T F := by
  unfold evalTable
  induction T with
  | nil => simp
  | cons t T ih =>
    simp only [List.map_cons, List.sum_cons, ih]; ring

/-! ### the merged table (what the harness diffs against the code) has the same value -/

lemma evalTable_nil (F : ℤ → ℂ) : evalTable [] F = 0 := rfl

lemma evalTable_cons (t : ℤ × ℤ) (T : List (ℤ × ℤ)) (F : ℤ → ℂ) :
    evalTable (t :: T) F = ((t.2 : ℤ) : ℂ) * F t.1 + evalTable T F := by
  simp [evalTable]

lemma evalTable_insertTerm (t : ℤ × ℤ) (T : List (ℤ × ℤ)) (F : ℤ → ℂ) :
    evalTable (insertTerm t T) F = ((t.2 : ℤ) : ℂ) * F t.1 + evalTable T F := by
  induction T with
  | nil => simp [insertTerm, evalTable]
  | cons u T ih =>
    obtain ⟨w, k⟩ := u
    unfold insertTerm
    split_ifs with h1 h2
    · simp [evalTable_cons]
    · simp only [evalTable_cons]; push_cast; rw [h2]; ring
    · simp only [evalTable_cons, ih]; ring

lemma evalTable_foldl_insert (l acc : List (ℤ × ℤ)) (F : ℤ → ℂ) :
    evalTable (l.foldl (fun acc t => insertTerm t acc) acc) F = evalTable l F + evalTable acc F := by
  induction l generalizing acc with
  | nil => simp [evalTable_nil]
  | cons t l ih => rw [List.foldl_cons, ih, evalTable_insertTerm, evalTable_cons]; ring

lemma evalTable_filter_ne_zero (T : List (ℤ × ℤ)) (F : ℤ → ℂ) :
    evalTable (T.filter (fun t => t.2 ≠ 0)) F = evalTable T F := by
  induction T with
  | nil => rfl
  | cons t T ih =>
    by_cases h : t.2 = 0
    · simpa [h, evalTable_cons] using ih
    · simpa [h, evalTable_cons] using ih

/-- merging equal frequencies and dropping zero coefficients does not change the value -/
theorem evalTable_trigTableMerged (b c : ℕ) (F : ℤ → ℂ) :
    evalTable (trigTableMerged b c) F = evalTable (trigTable b c) F := by
  unfold trigTableMerged
  rw [evalTable_filter_ne_zero, evalTable_foldl_insert, evalTable_nil, add_zero]

example : trigTableMerged 1 1 = [(-2, -1), (2, 1)] := by decide

/-! ### finite laws: characteristic function, its derivatives, and the coded formula -/

section finite
variable {ι : Type*} (s : Finset ι) (p x : ι → ℝ)

/-- `Σ_j p_j (i x_j)^a e^{i t x_j}` — for `a = 0` the characteristic function of the finite
    (signed) law `Σ p_j δ_{x_j}`, for general `a` its a-th derivative (`cfD_iteratedDeriv`). -/
noncomputable def cfD (a : ℕ) (t : ℝ) : ℂ :=
  ∑ j ∈ s, (p j : ℂ) * (I * (x j : ℂ)) ^ a * exp (I * (t : ℂ) * (x j : ℂ))

lemma cfD_hasDerivAt (a : ℕ) (t : ℝ) : HasDerivAt (cfD s p x a) (cfD s p x (a + 1) t) t := by
  unfold cfD
  apply HasDerivAt.fun_sum
  intro j _
  have h0 : HasDerivAt (fun y : ℝ => ((y : ℝ) : ℂ)) 1 t := by
    simpa using (hasDerivAt_id t).ofReal_comp
  have h1 : HasDerivAt (fun y : ℝ => I * (y : ℂ) * (x j : ℂ)) (I * 1 * (x j : ℂ)) t :=
    (h0.const_mul I).mul_const _
  have h2 := (h1.cexp).const_mul ((p j : ℂ) * (I * (x j : ℂ)) ^ a)
  refine h2.congr_deriv ?_
  rw [pow_succ]; ring

/-- the a-th derivative of the characteristic function of a finite law -/
theorem cfD_iteratedDeriv (a : ℕ) : iteratedDeriv a (cfD s p x 0) = cfD s p x a := by
  induction a with
  | zero => simp
  | succ a ih =>
    rw [iteratedDeriv_succ, ih]
    funext t
    exact (cfD_hasDerivAt s p x a t).deriv

lemma cfD_zero (t : ℝ) : cfD s p x 0 t = ∑ j ∈ s, (p j : ℂ) * exp (I * (t : ℂ) * (x j : ℂ)) := by
  simp [cfD]

/-- **`get_trig_moment` is the true moment.**  For a finite law `(p_j, x_j)` the value computed by
    the code — table of `Polar.Trig.trigTable`, transform values `φ^(a)(ω)`, division by
    `I^(a+b) 2^(b+c)` (model: `trigNorm`, exponent of `I` reduced mod 4), real part — equals
    `Σ_j p_j x_j^a sin^b(x_j) cos^c(x_j)`. -/
theorem trig_moment_formula (a b c : ℕ) :
    ∑ j ∈ s, p j * x j ^ a * Real.sin (x j) ^ b * Real.cos (x j) ^ c =
      (evalTable (trigTable b c) (fun ω => iteratedDeriv a (cfD s p x 0) (ω : ℝ)) /
        (I ^ (trigNorm a b c).1 * 2 ^ (trigNorm a b c).2)).re := by
  have hnorm : (I ^ (trigNorm a b c).1 * 2 ^ (trigNorm a b c).2 : ℂ) = I ^ a * (I ^ b * 2 ^ (b + c)) := by
    simp only [trigNorm]
    rw [← I_pow_eq_pow_mod, pow_add]; ring
  have hN : (I ^ b * 2 ^ (b + c) : ℂ) ≠ 0 :=
    mul_ne_zero (pow_ne_zero _ I_ne_zero) (pow_ne_zero _ two_ne_zero)
  have hIa : (I ^ a : ℂ) ≠ 0 := pow_ne_zero _ I_ne_zero
  have key : evalTable (trigTable b c) (fun ω => iteratedDeriv a (cfD s p x 0) (ω : ℝ)) =
      (I ^ a * (I ^ b * 2 ^ (b + c))) *
        ((∑ j ∈ s, p j * x j ^ a * Real.sin (x j) ^ b * Real.cos (x j) ^ c : ℝ) : ℂ) := by
    rw [cfD_iteratedDeriv]
    have hpt : ∀ j, evalTable (trigTable b c) (fun ω => exp (I * ((ω : ℤ) : ℂ) * (x j : ℂ)))
        = (I ^ b * 2 ^ (b + c)) * (Complex.sin (x j : ℂ) ^ b * Complex.cos (x j : ℂ) ^ c) := by
      intro j
      have h := trig_table_pointwise (x j : ℂ) b c
      rw [eq_inv_mul_iff_mul_eq₀ hN] at h
      rw [h]
    unfold cfD
    rw [evalTable_sum]
    push_cast
    rw [Finset.mul_sum]
    apply Finset.sum_congr rfl
    intro j _
    rw [evalTable_const_mul, hpt j]
    rw [mul_pow]; ring
  rw [key, hnorm, mul_div_cancel_left₀ _ (mul_ne_zero hIa hN), ofReal_re]

/-- non-vacuity / instance: a two-point law, exponents (1,2,3) -/
example : (1/2 : ℝ) * 0 ^ 1 * Real.sin 0 ^ 2 * Real.cos 0 ^ 3 + (1/2 : ℝ) * 1 ^ 1 * Real.sin 1 ^ 2 * Real.cos 1 ^ 3 =
    (evalTable (trigTable 2 3) (fun ω => iteratedDeriv 1 (cfD (Finset.univ : Finset (Fin 2)) ![1/2, 1/2] ![0, 1] 0) (ω : ℝ)) /
      (I ^ (trigNorm 1 2 3).1 * 2 ^ (trigNorm 1 2 3).2)).re := by
  have h := trig_moment_formula (Finset.univ : Finset (Fin 2)) ![1/2, 1/2] ![0, 1] 1 2 3
  simpa [Fin.sum_univ_two] using h

/-! ### the frequency-0 term as coded (raw moment instead of the derivative of the transform) -/

/-- the transform value the code uses for one term (`Polar.Trig.termSource`) -/
noncomputable def codedTerm (a : ℕ) (ω : ℤ) : ℂ :=
  match termSource a ω with
  | .cf => cfD s p x 0 (ω : ℝ)
  | .moment => I ^ a * ((∑ j ∈ s, p j * x j ^ a : ℝ) : ℂ)
  | .cfDeriv => iteratedDeriv a (cfD s p x 0) (ω : ℝ)

/-- `φ^(a)(0) = i^a E[X^a]` for a finite law -/
theorem cfD_at_zero (a : ℕ) : iteratedDeriv a (cfD s p x 0) (0 : ℝ) = I ^ a * ((∑ j ∈ s, p j * x j ^ a : ℝ) : ℂ) := by
  rw [cfD_iteratedDeriv]
  unfold cfD
  push_cast
  rw [Finset.mul_sum]
  apply Finset.sum_congr rfl
  intro j _
  simp only [mul_zero, zero_mul, Complex.exp_zero, mul_one, mul_pow]
  ring

/-- every source the code chooses denotes the a-th derivative of the characteristic function -/
theorem codedTerm_eq (a : ℕ) (ω : ℤ) : codedTerm s p x a ω = iteratedDeriv a (cfD s p x 0) (ω : ℝ) := by
  unfold codedTerm termSource
  by_cases ha : a = 0
  · subst ha; simp
  · by_cases hw : ω = 0
    · subst hw; simp only [ha, if_false, if_true]; rw [Int.cast_zero, cfD_at_zero]
    · simp only [ha, hw, if_false]

/-- **`get_trig_moment` as coded** (frequency-0 terms from the raw moment) is the true moment -/
theorem trig_moment_formula_coded (a b c : ℕ) :
    ∑ j ∈ s, p j * x j ^ a * Real.sin (x j) ^ b * Real.cos (x j) ^ c =
      (evalTable (trigTable b c) (codedTerm s p x a) /
        (I ^ (trigNorm a b c).1 * 2 ^ (trigNorm a b c).2)).re := by
  rw [trig_moment_formula s p x a b c]
  congr 3
  funext ω
  rw [codedTerm_eq]

example : trigSources 1 1 1 = [.cfDeriv, .moment, .moment, .cfDeriv] := by decide

/-! ### exponential moments through the moment generating function -/

/-- `Σ_j p_j x_j^a e^{t x_j}`: for `a = 0` the mgf of the finite law, in general its a-th derivative -/
noncomputable def mgfD (a : ℕ) (t : ℝ) : ℝ := ∑ j ∈ s, p j * x j ^ a * Real.exp (t * x j)

lemma mgfD_hasDerivAt (a : ℕ) (t : ℝ) : HasDerivAt (mgfD s p x a) (mgfD s p x (a + 1) t) t := by
  unfold mgfD
  apply HasDerivAt.fun_sum
  intro j _
  have h1 : HasDerivAt (fun y : ℝ => y * x j) (1 * x j) t := (hasDerivAt_id t).mul_const _
  have h2 := (h1.exp).const_mul (p j * x j ^ a)
  refine h2.congr_deriv ?_
  rw [pow_succ]; ring

theorem mgfD_iteratedDeriv (a : ℕ) : iteratedDeriv a (mgfD s p x 0) = mgfD s p x a := by
  induction a with
  | zero => simp
  | succ a ih =>
    rw [iteratedDeriv_succ, ih]
    funext t
    exact (mgfD_hasDerivAt s p x a t).deriv

/-- **`get_exp_moment` is the true moment** for finite laws: `E[X^a e^{cX}] = M^(a)(c)` with the
    derivative order and evaluation point of the model (`Polar.Trig.expTable`). -/
theorem exp_moment_formula (a c : ℕ) :
    ∑ j ∈ s, p j * x j ^ a * Real.exp ((c : ℝ) * x j) =
      iteratedDeriv (expTable a c).1 (fun t => ∑ j ∈ s, p j * Real.exp (t * x j)) ((expTable a c).2 : ℝ) := by
  have h0 : (fun t => ∑ j ∈ s, p j * Real.exp (t * x j)) = mgfD s p x 0 := by
    funext t; simp [mgfD]
  rw [h0, mgfD_iteratedDeriv]
  rfl

example : (1/3 : ℝ) * 2 ^ 1 * Real.exp ((2 : ℕ) * 2) + (2/3 : ℝ) * 5 ^ 1 * Real.exp ((2 : ℕ) * 5) =
    iteratedDeriv 1 (fun t => ∑ j : Fin 2, (![1/3, 2/3] : Fin 2 → ℝ) j * Real.exp (t * (![2, 5] : Fin 2 → ℝ) j)) ((2 : ℕ) : ℝ) := by
  have h := exp_moment_formula (Finset.univ : Finset (Fin 2)) ![1/3, 2/3] ![2, 5] 1 2
  simpa [Fin.sum_univ_two, expTable] using h

/-! ### the guard of `get_func_moment` -/

/-- the true mixed moment `E[X^Id sin^Sin X cos^Cos X e^{Exp·X}]` of the finite law -/
noncomputable def trueMoment (powers : List (String × ℕ)) : ℝ :=
  ∑ j ∈ s, p j * x j ^ powerOf powers "Id" * Real.sin (x j) ^ powerOf powers "Sin" *
    Real.cos (x j) ^ powerOf powers "Cos" * Real.exp ((powerOf powers "Exp" : ℝ) * x j)

/-- the number a plan of the model denotes for a finite law (`none` = the call raises) -/
noncomputable def planValue : Plan → Option ℝ
  | .trig a _ _ T nrm =>
      some (evalTable T (codedTerm s p x a) / (I ^ nrm.1 * 2 ^ nrm.2)).re
  | .exp a c => some (iteratedDeriv a (fun t => ∑ j ∈ s, p j * Real.exp (t * x j)) (c : ℝ))
  | .error _ => none

end finite

lemma powerOf_eq_zero (powers : List (String × ℕ)) (k : String)
    (h : (powers.map (·.1)).contains k = false) : powerOf powers k = 0 := by
  unfold powerOf
  have : powers.lookup k = none := by
    induction powers with
    | nil => rfl
    | cons q qs ih =>
      simp only [List.map_cons, List.contains_cons, Bool.or_eq_false_iff] at h
      rw [List.lookup_cons, h.1]
      exact ih h.2
  rw [this]

section guard
variable {ι : Type*} (s : Finset ι) (p x : ι → ℝ)

/-- the guard as coded (since /repo e78913c) is the documented guard -/
theorem route_coded_eq_intended (keys : List String) : routeCoded keys = routeIntended keys := by
  unfold routeCoded routeIntended
  rfl

/-- **`mix_rejected`**: powers that contain "Sin" or "Cos" together with "Exp" are refused
    ("Exponential and trigonometric moments cannot be mixed"), whatever else they contain. -/
theorem mix_rejected (powers : List (String × ℕ))
    (htrig : (powers.map (·.1)).contains "Sin" = true ∨ (powers.map (·.1)).contains "Cos" = true)
    (hexp : (powers.map (·.1)).contains "Exp" = true) :
    planCoded powers = Plan.error "mixed" ∧ planValue s p x (planCoded powers) = none := by
  have hr : routeCoded (powers.map (·.1)) = Route.errMixed := by
    unfold routeCoded
    rcases htrig with h | h <;>
      simp only [h, hexp, Bool.true_or, Bool.or_true, Bool.and_self, if_true]
  have hp : planCoded powers = Plan.error "mixed" := by
    unfold planCoded
    rw [hr]
  exact ⟨hp, by rw [hp]; rfl⟩

example : planCoded [("Sin", 1), ("Exp", 1)] = Plan.error "mixed" :=
  (mix_rejected ({()} : Finset Unit) (fun _ => 1) (fun _ => 1) [("Sin", 1), ("Exp", 1)]
    (Or.inl (by decide)) (by decide)).1

set_option linter.unusedSimpArgs false in
/-- **`get_func_moment` is sound** (full statement): every value it returns for a finite law is the
    true mixed moment `Σ p_j x_j^Id sin^Sin(x_j) cos^Cos(x_j) e^{Exp·x_j}`; the remaining calls raise. -/
theorem plan_coded_sound (powers : List (String × ℕ))
    (v : ℝ) (hv : planValue s p x (planCoded powers) = some v) :
    v = trueMoment s p x powers := by
  unfold planCoded at hv
  unfold routeCoded at hv
  rcases hS : (powers.map (·.1)).contains "Sin" with _ | _ <;>
  rcases hC : (powers.map (·.1)).contains "Cos" with _ | _ <;>
  rcases hE : (powers.map (·.1)).contains "Exp" with _ | _ <;>
  simp only [hS, hC, hE, Bool.or_self, Bool.or_true, Bool.or_false, Bool.true_or, Bool.false_or,
    Bool.and_self, Bool.and_true, Bool.and_false, Bool.true_and, Bool.false_and, if_true, if_false,
    Bool.false_eq_true, reduceCtorEq, planValue, Option.some.injEq] at hv <;>
  first
  | exact absurd hv (by simp)
  | (-- exp route: Sin and Cos absent
     subst hv
     unfold trueMoment
     rw [powerOf_eq_zero powers "Sin" hS, powerOf_eq_zero powers "Cos" hC]
     have := exp_moment_formula s p x (powerOf powers "Id") (powerOf powers "Exp")
     simp only [expTable] at this
     rw [← this]
     apply Finset.sum_congr rfl; intro j _; ring)
  | (-- trig route: Exp absent
     subst hv
     unfold trueMoment
     rw [powerOf_eq_zero powers "Exp" hE]
     rw [← trig_moment_formula_coded]
     apply Finset.sum_congr rfl; intro j _; simp)

/-- non-vacuity of `plan_coded_sound`: a value is returned on the trig and on the exp route -/
example : (∃ v, planValue ({()} : Finset Unit) (fun _ => 1) (fun _ => 1) (planCoded [("Sin", 2), ("Id", 1)]) = some v) ∧
    (∃ v, planValue ({()} : Finset Unit) (fun _ => 1) (fun _ => 1) (planCoded [("Exp", 2), ("Id", 1)]) = some v) :=
  ⟨⟨_, rfl⟩, ⟨_, rfl⟩⟩

/-- the historical defect F5 (guard tested "Expt"): had the call been routed to `get_trig_moment`,
    which never reads the "Exp" power, the point law at 1 would have received `sin 1` instead of
    `sin 1 · e`; this is why the rejection matters. -/
theorem trig_route_ignores_exp :
    planValue ({()} : Finset Unit) (fun _ => 1) (fun _ => 1) (Plan.trig 0 1 0 (trigTable 1 0) (trigNorm 0 1 0))
      = some (Real.sin 1) ∧
    trueMoment ({()} : Finset Unit) (fun _ => 1) (fun _ => 1) [("Sin", 1), ("Exp", 1)] = Real.sin 1 * Real.exp 1 ∧
    Real.sin 1 ≠ Real.sin 1 * Real.exp 1 := by
  have hval : (evalTable (trigTable 1 0) (codedTerm ({()} : Finset Unit) (fun _ => 1) (fun _ => 1) 0) /
        (I ^ (trigNorm 0 1 0).1 * 2 ^ (trigNorm 0 1 0).2)).re = Real.sin 1 := by
    rw [← trig_moment_formula_coded]; simp
  have htrue : trueMoment ({()} : Finset Unit) (fun _ => 1) (fun _ => 1) [("Sin", 1), ("Exp", 1)]
      = Real.sin 1 * Real.exp 1 := by
    have h1 : powerOf [("Sin", 1), ("Exp", 1)] "Id" = 0 := by decide
    have h2 : powerOf [("Sin", 1), ("Exp", 1)] "Sin" = 1 := by decide
    have h3 : powerOf [("Sin", 1), ("Exp", 1)] "Cos" = 0 := by decide
    have h4 : powerOf [("Sin", 1), ("Exp", 1)] "Exp" = 1 := by decide
    simp [trueMoment, h1, h2, h3, h4]
  refine ⟨?_, htrue, ?_⟩
  · simp only [planValue]; rw [hval]
  · have hs : 0 < Real.sin 1 :=
      Real.sin_pos_of_pos_of_lt_pi one_pos (by linarith [Real.two_le_pi])
    have he : 1 < Real.exp 1 := by
      have := Real.add_one_lt_exp (x := 1) one_ne_zero
      linarith
    intro h
    nlinarith

end guard

section existence
open MeasureTheory Set

/-! ### existence of exponential moments: the guards `mgf_exists_at` decide integrability -/

lemma not_integrableOn_of_const_le {f : ℝ → ℝ} {s : Set ℝ} (hs : MeasurableSet s) (hvol : volume s = ⊤)
    {m : ℝ} (hm : 0 < m) (hle : ∀ x ∈ s, m ≤ f x) : ¬ IntegrableOn f s := by
  intro h
  have hconst : IntegrableOn (fun _ : ℝ => m) s := by
    refine Integrable.mono' h aestronglyMeasurable_const ?_
    rw [ae_restrict_iff' hs]
    refine Filter.Eventually.of_forall (fun x hx => ?_)
    rw [Real.norm_eq_abs, abs_of_pos hm]
    exact hle x hx
  rw [integrableOn_const_iff] at hconst
  rcases hconst with h0 | hfin
  · exact (ne_of_gt hm) (by simpa using h0)
  · rw [hvol] at hfin; exact lt_irrefl _ hfin

theorem integrableOn_exp_mul_Ioi_iff (a c : ℝ) :
    IntegrableOn (fun x : ℝ => Real.exp (a * x)) (Ioi c) ↔ a < 0 := by
  constructor
  · intro h
    by_contra hna
    have ha : 0 ≤ a := not_lt.mp hna
    refine not_integrableOn_of_const_le measurableSet_Ioi Real.volume_Ioi (Real.exp_pos (a * c)) ?_ h
    intro x hx
    exact Real.exp_le_exp.mpr (mul_le_mul_of_nonneg_left (le_of_lt hx) ha)
  · intro h
    exact integrableOn_exp_mul_Ioi h c

theorem integrableOn_exp_mul_Iic_iff (a c : ℝ) :
    IntegrableOn (fun x : ℝ => Real.exp (a * x)) (Iic c) ↔ 0 < a := by
  constructor
  · intro h
    by_contra hna
    have ha : a ≤ 0 := not_lt.mp hna
    refine not_integrableOn_of_const_le measurableSet_Iic Real.volume_Iic (Real.exp_pos (a * c)) ?_ h
    intro x hx
    have hx' : x ≤ c := hx
    exact Real.exp_le_exp.mpr (by nlinarith)
  · intro h
    exact integrableOn_exp_mul_Iic h c

lemma integrableOn_const_mul_iff' {f : ℝ → ℝ} {s : Set ℝ} {C : ℝ} (hC : C ≠ 0) :
    IntegrableOn (fun x => C * f x) s ↔ IntegrableOn f s := by
  unfold IntegrableOn
  exact integrable_const_mul_iff (IsUnit.mk0 C hC) f

/-- integrand of `E[e^{tX}]`, `X ~ Exponential(λ)` (density `λ e^{-λx}` on `(0,∞)`) -/
noncomputable def expMgfIntegrand (lam t : ℝ) (x : ℝ) : ℝ := Real.exp (t * x) * (lam * Real.exp (-(lam * x)))

theorem exponential_mgf_exists_iff {lam : ℝ} (hl : 0 < lam) (t : ℝ) :
    IntegrableOn (expMgfIntegrand lam t) (Ioi 0) ↔ t < lam := by
  have hfun : expMgfIntegrand lam t = fun x => lam * Real.exp ((t - lam) * x) := by
    funext x
    unfold expMgfIntegrand
    rw [show (t - lam) * x = t * x + -(lam * x) by ring, Real.exp_add]
    ring
  rw [hfun, integrableOn_const_mul_iff' hl.ne', integrableOn_exp_mul_Ioi_iff]
  constructor <;> intro h <;> linarith

/-- the model's `Exponential.mgf_exists_at` (`t < lamb`) decides existence of the mgf -/
theorem mgfExistsExponential_correct (lam t : ℚ) (hl : 0 < lam) :
    mgfExistsExponential lam t = true ↔ IntegrableOn (expMgfIntegrand (lam : ℝ) (t : ℝ)) (Ioi 0) := by
  rw [exponential_mgf_exists_iff (by exact_mod_cast hl)]
  unfold mgfExistsExponential
  simp

example : mgfExistsExponential 2 1 = true ∧ mgfExistsExponential 2 2 = false := by decide

/-- integrand of `E[e^{tX}]`, `X ~ Gamma(k, θ)` (shape, scale), without the positive normalising constant -/
noncomputable def gammaMgfIntegrand (k theta t : ℝ) (x : ℝ) : ℝ :=
  Real.exp (t * x) * (x ^ (k - 1) * Real.exp (-(x / theta)))

theorem gamma_mgf_exists_iff {k theta : ℝ} (hk : 0 < k) (_hth : 0 < theta) (t : ℝ) :
    IntegrableOn (gammaMgfIntegrand k theta t) (Ioi 0) ↔ t < 1 / theta := by
  have hfun : gammaMgfIntegrand k theta t = fun x => x ^ (k - 1) * Real.exp (-(1 / theta - t) * x ^ (1:ℝ)) := by
    funext x
    unfold gammaMgfIntegrand
    rw [Real.rpow_one, show -(1 / theta - t) * x = t * x + -(x / theta) by ring, Real.exp_add]
    ring
  constructor
  · intro h
    by_contra hlt
    have hle : 1 / theta ≤ t := not_lt.mp hlt
    apply not_integrableOn_Ioi_rpow (k - 1)
    refine Integrable.mono' h ((measurable_id.pow_const _).aestronglyMeasurable) ?_
    rw [ae_restrict_iff' measurableSet_Ioi]
    refine Filter.Eventually.of_forall (fun x hx => ?_)
    have hx0 : (0:ℝ) < x := hx
    have hp : 0 ≤ x ^ (k - 1) := Real.rpow_nonneg hx0.le _
    rw [hfun]
    simp only [Real.norm_eq_abs, abs_of_nonneg hp, Real.rpow_one]
    have h1 : 1 ≤ Real.exp (-(1 / theta - t) * x) := by
      apply Real.one_le_exp
      nlinarith
    nlinarith
  · intro h
    rw [hfun]
    exact integrableOn_rpow_mul_exp_neg_mul_rpow (by linarith) one_pos (by linarith)

theorem mgfExistsGamma_correct (k theta t : ℚ) (hk : 0 < k) (hth : 0 < theta) :
    mgfExistsGamma theta t = true ↔
      IntegrableOn (gammaMgfIntegrand (k : ℝ) (theta : ℝ) (t : ℝ)) (Ioi 0) := by
  rw [gamma_mgf_exists_iff (by exact_mod_cast hk) (by exact_mod_cast hth)]
  unfold mgfExistsGamma
  simp only [decide_eq_true_eq]
  rw [← Rat.cast_lt (K := ℝ)]
  push_cast
  rfl

/-- integrand of `E[e^{tX}]`, `X ~ Laplace(μ, b)` -/
noncomputable def laplaceMgfIntegrand (mu b t : ℝ) (x : ℝ) : ℝ :=
  Real.exp (t * x) * (Real.exp (-(|x - mu| / b)) / (2 * b))

theorem laplace_mgf_exists_iff (mu : ℝ) {b : ℝ} (hb : 0 < b) (t : ℝ) :
    Integrable (laplaceMgfIntegrand mu b t) ↔ |t| < 1 / b := by
  have hR : IntegrableOn (laplaceMgfIntegrand mu b t) (Ioi mu) ↔ t < 1 / b := by
    have heq : EqOn (laplaceMgfIntegrand mu b t)
        (fun x => (Real.exp (mu / b) / (2 * b)) * Real.exp ((t - 1 / b) * x)) (Ioi mu) := by
      intro x hx
      have hx' : mu < x := hx
      unfold laplaceMgfIntegrand
      simp only
      rw [abs_of_pos (by linarith : 0 < x - mu),
        show (t - 1 / b) * x = t * x + -((x - mu) / b) + -(mu / b) by ring, Real.exp_add, Real.exp_add,
        Real.exp_neg (mu / b)]
      field_simp
    have hC : Real.exp (mu / b) / (2 * b) ≠ 0 := by positivity
    have hcongr : IntegrableOn (laplaceMgfIntegrand mu b t) (Ioi mu) ↔
        IntegrableOn (fun x => (Real.exp (mu / b) / (2 * b)) * Real.exp ((t - 1 / b) * x)) (Ioi mu) :=
      ⟨fun h => h.congr_fun heq measurableSet_Ioi, fun h => h.congr_fun heq.symm measurableSet_Ioi⟩
    rw [hcongr, integrableOn_const_mul_iff' hC, integrableOn_exp_mul_Ioi_iff]
    constructor <;> intro h <;> linarith
  have hL : IntegrableOn (laplaceMgfIntegrand mu b t) (Iic mu) ↔ -(1 / b) < t := by
    have heq : EqOn (laplaceMgfIntegrand mu b t)
        (fun x => (Real.exp (-(mu / b)) / (2 * b)) * Real.exp ((t + 1 / b) * x)) (Iic mu) := by
      intro x hx
      have hx' : x ≤ mu := hx
      unfold laplaceMgfIntegrand
      simp only
      rw [abs_of_nonpos (by linarith : x - mu ≤ 0),
        show (t + 1 / b) * x = t * x + -(-(x - mu) / b) + (mu / b) by ring, Real.exp_add, Real.exp_add,
        Real.exp_neg (mu / b)]
      field_simp
    have hC : Real.exp (-(mu / b)) / (2 * b) ≠ 0 := by positivity
    have hcongr : IntegrableOn (laplaceMgfIntegrand mu b t) (Iic mu) ↔
        IntegrableOn (fun x => (Real.exp (-(mu / b)) / (2 * b)) * Real.exp ((t + 1 / b) * x)) (Iic mu) :=
      ⟨fun h => h.congr_fun heq measurableSet_Iic, fun h => h.congr_fun heq.symm measurableSet_Iic⟩
    rw [hcongr, integrableOn_const_mul_iff' hC, integrableOn_exp_mul_Iic_iff]
    constructor <;> intro h <;> linarith
  rw [← integrableOn_univ, ← Iic_union_Ioi (a := mu), integrableOn_union, hL, hR, abs_lt]

theorem mgfExistsLaplace_correct (mu b t : ℚ) (hb : 0 < b) :
    mgfExistsLaplace b t = true ↔ Integrable (laplaceMgfIntegrand (mu : ℝ) (b : ℝ) (t : ℝ)) := by
  rw [laplace_mgf_exists_iff _ (by exact_mod_cast hb)]
  unfold mgfExistsLaplace
  simp only [decide_eq_true_eq]
  have : (if t < 0 then -t else t) = |t| := by
    split_ifs with h
    · rw [abs_of_neg h]
    · rw [abs_of_nonneg (not_lt.mp h)]
  rw [this, ← Rat.cast_lt (K := ℝ)]
  push_cast
  rfl


/-- non-vacuity: an existing and a missing exponential moment of each restricted family -/
example : IntegrableOn (expMgfIntegrand 2 1) (Ioi 0) ∧ ¬ IntegrableOn (expMgfIntegrand 2 2) (Ioi 0) :=
  ⟨(exponential_mgf_exists_iff (by norm_num) 1).mpr (by norm_num),
   fun h => absurd ((exponential_mgf_exists_iff (by norm_num) 2).mp h) (by norm_num)⟩
example : IntegrableOn (gammaMgfIntegrand 2 (1/2) 1) (Ioi 0) ∧ ¬ IntegrableOn (gammaMgfIntegrand 2 (1/2) 2) (Ioi 0) :=
  ⟨(gamma_mgf_exists_iff (by norm_num) (by norm_num) 1).mpr (by norm_num),
   fun h => absurd ((gamma_mgf_exists_iff (by norm_num) (by norm_num) 2).mp h) (by norm_num)⟩
example : Integrable (laplaceMgfIntegrand 1 (1/2) 1) ∧ ¬ Integrable (laplaceMgfIntegrand 1 (1/2) (-2)) :=
  ⟨(laplace_mgf_exists_iff 1 (by norm_num) 1).mpr (by norm_num [abs_lt]),
   fun h => absurd ((laplace_mgf_exists_iff 1 (by norm_num) (-2)).mp h) (by norm_num [abs_lt])⟩

end existence

end TrigMoment
