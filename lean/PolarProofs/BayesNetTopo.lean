import Mathlib.Tactic
import Polar.BayesNet
import PolarProofs.BayesNetLaw

/-! C15 — Kahn's algorithm as coded in `CodeGenerator.__topological_sort__` (`topoOrder`): whenever it returns
an order (the `assert` on the length holds), that order passes `isTopo`: it is a permutation of the variables in
which every variable comes after its parents.  No assumption on the network (repeated or undeclared parents and
cycles make the assertion fail instead). -/

namespace Polar.BN

def hitB (net : Net) (src i : ℕ) : Bool := (parentsOf net i).contains src

/-! ### one relaxation pass -/

lemma relax_cons (net : Net) (src : ℕ) (c : ℤ) (cs : List ℤ) (i : ℕ) :
    relax net src (c :: cs) i =
      ((if hitB net src i then c - 1 else c) :: (relax net src cs (i + 1)).1,
       if (hitB net src i && (if hitB net src i then c - 1 else c) == 0) then i :: (relax net src cs (i + 1)).2
       else (relax net src cs (i + 1)).2) := by
  unfold hitB
  rfl

lemma relax_length (net : Net) (src : ℕ) : ∀ (cnt : List ℤ) (i : ℕ), (relax net src cnt i).1.length = cnt.length := by
  intro cnt
  induction cnt with
  | nil => intro i; rfl
  | cons c cs ih => intro i; rw [relax_cons]; simp [ih]

lemma relax_getD (net : Net) (src : ℕ) : ∀ (cnt : List ℤ) (i j : ℕ), j < cnt.length →
    (relax net src cnt i).1.getD j 0 = cnt.getD j 0 - (if hitB net src (i + j) then 1 else 0) := by
  intro cnt
  induction cnt with
  | nil => intro i j hj; simp at hj
  | cons c cs ih =>
    intro i j hj
    rw [relax_cons]
    cases j with
    | zero => simp only [List.getD_cons_zero, Nat.add_zero]; split_ifs <;> ring
    | succ j =>
      simp only [List.getD_cons_succ]
      rw [ih (i + 1) j (by simpa using hj)]
      have : i + 1 + j = i + (j + 1) := by omega
      rw [this]

lemma relax_mem (net : Net) (src : ℕ) : ∀ (cnt : List ℤ) (i k : ℕ),
    k ∈ (relax net src cnt i).2 ↔
      ∃ j, j < cnt.length ∧ k = i + j ∧ hitB net src k = true ∧ cnt.getD j 0 = 1 := by
  intro cnt
  induction cnt with
  | nil => intro i k; simp [relax]
  | cons c cs ih =>
    intro i k
    rw [relax_cons]
    have hrest : k ∈ (relax net src cs (i + 1)).2 ↔
        ∃ j, 0 < j ∧ j < (c :: cs).length ∧ k = i + j ∧ hitB net src k = true ∧ (c :: cs).getD j 0 = 1 := by
      rw [ih (i + 1) k]
      constructor
      · rintro ⟨j, hj, hk, h1, h2⟩
        exact ⟨j + 1, by omega, by simpa using hj, by omega, h1, by simpa using h2⟩
      · rintro ⟨j, hj0, hj, hk, h1, h2⟩
        obtain ⟨j', rfl⟩ : ∃ j', j = j' + 1 := ⟨j - 1, by omega⟩
        exact ⟨j', by simpa using hj, by omega, h1, by simpa using h2⟩
    by_cases hh : hitB net src i = true
    · by_cases hc : c - 1 = 0
      · have : (hitB net src i && (if hitB net src i = true then c - 1 else c) == 0) = true := by simp [hh, hc]
        rw [if_pos this, List.mem_cons, hrest]
        constructor
        · rintro (rfl | ⟨j, _, h⟩)
          · exact ⟨0, by simp, rfl, hh, by simp; linarith⟩
          · exact ⟨j, h⟩
        · rintro ⟨j, hj, hk, h1, h2⟩
          cases j with
          | zero => left; simpa using hk
          | succ j => right; exact ⟨j + 1, by omega, hj, hk, h1, h2⟩
      · have : ¬ (hitB net src i && (if hitB net src i = true then c - 1 else c) == 0) = true := by simp [hh, hc]
        rw [if_neg this, hrest]
        constructor
        · rintro ⟨j, _, h⟩; exact ⟨j, h⟩
        · rintro ⟨j, hj, hk, h1, h2⟩
          cases j with
          | zero => exfalso; apply hc; simp at h2; linarith
          | succ j => exact ⟨j + 1, by omega, hj, hk, h1, h2⟩
    · have : ¬ (hitB net src i && (if hitB net src i = true then c - 1 else c) == 0) = true := by simp [hh]
      rw [if_neg this, hrest]
      constructor
      · rintro ⟨j, _, h⟩; exact ⟨j, h⟩
      · rintro ⟨j, hj, hk, h1, h2⟩
        cases j with
        | zero => exfalso; apply hh; rw [hk] at h1; simpa using h1
        | succ j => exact ⟨j + 1, by omega, hj, hk, h1, h2⟩

lemma relax_nodup (net : Net) (src : ℕ) : ∀ (cnt : List ℤ) (i : ℕ), (relax net src cnt i).2.Nodup := by
  intro cnt
  induction cnt with
  | nil => intro i; simp [relax]
  | cons c cs ih =>
    intro i
    rw [relax_cons]
    by_cases hc : (hitB net src i && (if hitB net src i then c - 1 else c) == 0) = true
    · rw [if_pos hc]
      show (i :: (relax net src cs (i + 1)).2).Nodup
      rw [List.nodup_cons]
      refine ⟨fun h => ?_, ih (i + 1)⟩
      obtain ⟨j, _, hk, _⟩ := (relax_mem net src cs (i + 1) i).mp h
      omega
    · rw [if_neg hc]
      exact ih (i + 1)

/-! ### the loop invariant -/

/-- parents of `i` that have been emitted so far -/
def seen (net : Net) (out : List ℕ) (i : ℕ) : List ℕ := out.filter (fun s => (parentsOf net i).contains s)

structure KInv (net : Net) (q : List ℕ) (cnt : List ℤ) (out : List ℕ) : Prop where
  nodup : (out ++ q).Nodup
  lt : ∀ v ∈ out ++ q, v < net.length
  len : cnt.length = net.length
  count : ∀ i, i < net.length → cnt.getD i 0 = ((parentsOf net i).length : ℤ) - ((seen net out i).length : ℤ)
  zero : ∀ v ∈ out ++ q, cnt.getD v 0 = 0
  ok : topoOK net [] out = true

lemma seen_append (net : Net) (out : List ℕ) (s i : ℕ) :
    ((seen net (out ++ [s]) i).length : ℤ) = (seen net out i).length + (if hitB net s i then 1 else 0) := by
  unfold seen hitB
  rw [List.filter_append, List.length_append]
  by_cases h : s ∈ parentsOf net i
  · simp [h]
  · simp [h]

/-- a duplicate-free list of members of `l` that is as long as `l` contains every member of `l` -/
lemma subset_of_nodup_length {l m : List ℕ} (hm : m.Nodup) (hsub : m ⊆ l) (hlen : l.length ≤ m.length) : l ⊆ m :=
  ((List.subperm_of_subset hm hsub).perm_of_length_le hlen).symm.subset

lemma seen_nodup {net : Net} {out : List ℕ} (h : out.Nodup) (i : ℕ) : (seen net out i).Nodup := h.filter _

lemma seen_subset (net : Net) (out : List ℕ) (i : ℕ) : seen net out i ⊆ parentsOf net i := by
  intro x hx
  have := (List.mem_filter.mp hx).2
  simpa using this

/-- a variable whose counter is 0 has all its parents in `out` -/
lemma parents_seen {net : Net} {q : List ℕ} {cnt : List ℤ} {out : List ℕ} (h : KInv net q cnt out)
    {v : ℕ} (hv : v ∈ out ++ q) : parentsOf net v ⊆ out := by
  have hout : out.Nodup := (List.nodup_append.mp h.nodup).1
  have h0 := h.zero v hv
  rw [h.count v (h.lt v hv)] at h0
  have hlen : (parentsOf net v).length ≤ (seen net out v).length := by omega
  intro p hp
  have := subset_of_nodup_length (seen_nodup hout v) (seen_subset net out v) hlen hp
  exact (List.mem_filter.mp this).1

/-- a source that is still queued is not a parent of any variable whose counter is already 0 -/
lemma not_parent_of_zero {net : Net} {q : List ℕ} {cnt : List ℤ} {out : List ℕ} {s : ℕ}
    (h : KInv net (s :: q) cnt out) {v : ℕ} (hv : v ∈ out ++ s :: q) : hitB net s v = false := by
  by_contra hh
  have hh : (parentsOf net v).contains s = true := by simpa [hitB] using hh
  have hs : s ∈ parentsOf net v := by simpa using hh
  have := parents_seen h hv hs
  have hnd := h.nodup
  rw [List.nodup_append] at hnd
  exact hnd.2.2 s this s List.mem_cons_self rfl

lemma topoOK_append (net : Net) (s : ℕ) : ∀ (l done : List ℕ),
    topoOK net done (l ++ [s]) = (topoOK net done l && parentsOK net (l.reverse ++ done) s) := by
  intro l
  induction l with
  | nil => intro done; simp [topoOK]
  | cons v l ih =>
    intro done
    simp only [List.cons_append, topoOK, ih (v :: done), List.reverse_cons, List.append_assoc,
      List.singleton_append, Bool.and_assoc, List.nil_append]

lemma kinv_step {net : Net} {s : ℕ} {q : List ℕ} {cnt : List ℤ} {out : List ℕ}
    (h : KInv net (s :: q) cnt out) :
    KInv net (q ++ (relax net s cnt 0).2) (relax net s cnt 0).1 (out ++ [s]) := by
  have hs_mem : s ∈ out ++ s :: q := by simp
  have hsl : s < net.length := h.lt s hs_mem
  have hnd := h.nodup
  have hmem_old : ∀ k, k ∈ (relax net s cnt 0).2 → k ∉ out ++ s :: q ∧ k < net.length := by
    intro k hk
    obtain ⟨j, hj, hkj, _, h2⟩ := (relax_mem net s cnt 0 k).mp hk
    have hkj : k = j := by omega
    subst hkj
    refine ⟨fun hin => ?_, by rw [← h.len]; exact hj⟩
    have := h.zero k hin
    rw [h2] at this
    exact one_ne_zero this
  refine ⟨?_, ?_, ?_, ?_, ?_, ?_⟩
  · -- nodup
    have h1 : (out ++ [s] ++ q).Nodup := by simpa [List.append_assoc] using hnd
    rw [← List.append_assoc, List.nodup_append]
    refine ⟨h1, relax_nodup net s cnt 0, fun a ha b hb hab => ?_⟩
    subst hab
    exact (hmem_old a hb).1 (by simpa [List.append_assoc] using ha)
  · intro v hv
    rw [← List.append_assoc, List.mem_append] at hv
    rcases hv with hv | hv
    · exact h.lt v (by simpa [List.append_assoc] using hv)
    · exact (hmem_old v hv).2
  · rw [relax_length, h.len]
  · intro i hi
    rw [relax_getD net s cnt 0 i (by rw [h.len]; exact hi), h.count i hi, seen_append, Nat.zero_add]
    ring
  · intro v hv
    rw [← List.append_assoc, List.mem_append] at hv
    rcases hv with hv | hv
    · have hv' : v ∈ out ++ s :: q := by simpa [List.append_assoc] using hv
      rw [relax_getD net s cnt 0 v (by rw [h.len]; exact h.lt v hv'), h.zero v hv', Nat.zero_add,
        not_parent_of_zero h hv']
      simp
    · obtain ⟨j, hj, hkj, h1, h2⟩ := (relax_mem net s cnt 0 v).mp hv
      have hkj : v = j := by omega
      subst hkj
      rw [relax_getD net s cnt 0 v hj, h2, Nat.zero_add, h1]
      simp
  · rw [topoOK_append, h.ok, Bool.true_and]
    have hp := parents_seen h hs_mem
    unfold parentsOf at hp
    unfold parentsOK
    rw [List.getElem?_eq_getElem hsl] at hp ⊢
    simp only [List.all_eq_true, List.contains_iff_mem, List.append_nil, List.mem_reverse]
    intro p hp'
    exact hp hp'

lemma kahn_inv (net : Net) : ∀ (fuel : ℕ) (q : List ℕ) (cnt : List ℤ) (out : List ℕ), KInv net q cnt out →
    ∃ q' cnt', KInv net q' cnt' (kahn net fuel q cnt out) := by
  intro fuel
  induction fuel with
  | zero => intro q cnt out h; exact ⟨q, cnt, by simpa [kahn] using h⟩
  | succ fuel ih =>
    intro q cnt out h
    cases q with
    | nil => exact ⟨[], cnt, by simpa [kahn] using h⟩
    | cons s q =>
      simp only [kahn]
      exact ih _ _ _ (kinv_step h)

lemma kinv_init (net : Net) :
    KInv net ((List.range net.length).filter (fun i => (parentsOf net i).isEmpty))
      (net.map (fun v => (v.parents.length : ℤ))) [] := by
  refine ⟨?_, ?_, by simp, ?_, ?_, rfl⟩
  · simpa using (List.nodup_range (n := net.length)).filter _
  · intro v hv
    simp only [List.nil_append, List.mem_filter, List.mem_range] at hv
    exact hv.1
  · intro i hi
    simp only [seen, List.filter_nil, List.length_nil, Nat.cast_zero, sub_zero, parentsOf,
      List.getD_eq_getElem?_getD, List.getElem?_map, List.getElem?_eq_getElem hi, Option.map_some, Option.getD_some]
  · intro v hv
    simp only [List.nil_append, List.mem_filter, List.mem_range] at hv
    obtain ⟨hv, he⟩ := hv
    unfold parentsOf at he
    rw [List.getElem?_eq_getElem hv] at he
    simp only [List.getD_eq_getElem?_getD, List.getElem?_map, List.getElem?_eq_getElem hv, Option.map_some,
      Option.getD_some]
    have : net[v].parents = [] := by simpa using he
    simp [this]

/-- **Kahn's algorithm as coded returns a topological order whenever its final assertion holds.** -/
theorem topoOrder_isTopo (net : Net) (o : List ℕ) (h : topoOrder net = some o) : isTopo net o = true := by
  obtain ⟨q', cnt', inv⟩ := kahn_inv net (net.length + 1) _ _ _ (kinv_init net)
  unfold topoOrder at h
  simp only at h
  split_ifs at h with hlen
  injection h with h
  rw [h] at inv hlen
  have hnd : o.Nodup := (List.nodup_append.mp inv.nodup).1
  simp only [isTopo, Bool.and_eq_true, beq_iff_eq, List.all_eq_true, decide_eq_true_eq, nodupB_iff]
  exact ⟨⟨⟨hlen, fun v hv => inv.lt v (List.mem_append_left _ hv)⟩, hnd⟩, inv.ok⟩

/-- a network declared child-first -/
def exNetT : Net :=
  [ { name := "X", domain := ["0", "1"], parents := [1], cpt := [[1/2, 1/2], [1/5, 4/5]] },
    { name := "A", domain := ["a", "b"], parents := [], cpt := [[1/4, 3/4]] } ]

example : topoOrder exNetT = some [1, 0] := by decide +kernel
example : isTopo exNetT [1, 0] = true := topoOrder_isTopo exNetT [1, 0] (by decide +kernel)

end Polar.BN
