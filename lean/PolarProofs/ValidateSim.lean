/-
  PolarProofs/ValidateSim.lean — soundness of the translation validator `Polar/ValidateSim.lean` (V3, property C02):
  a per-instance proof, for ALL n, that two programs (two snapshots of the normalisation pipeline) have the same joint
  law over the observed variables.

  Property theorems (non-vacuity `example`s at the end of the file: a loop with a nested if/else, its flattened
  single-assignment form with auxiliaries `_x1`, `_x2`, and a deliberately broken variant that is refuted):

  * `stmtD_sim` / `blockD_sim` / `iterD_sim` — symbolic execution is sound for the fragment WITH nested `ite`
    (mutual induction over statements and blocks), including the domain bookkeeping `Dom`.
  * `wsumK_of_sameMass` — two weighted lists with the same total weight on every projection give every function the
    same weighted sum (this is what "the merged projections coincide" means; no merge function is needed).
  * `step_P`, `step_P'`, `hval_congr` — **one-step lemma**: from any concrete state of `P` or of `P'` that satisfies the
    invariant, the expectation of any function of the observed tuple after one iteration is ONE function `Hval` of
    the observed tuple of the state.
  * `sim_step` — **bisimulation step**: `SameLaw` (every test function of the observed tuple has the same expectation)
    and the invariants are preserved by the weighted bind with `iter P` / `iter P'`.
  * `checkSameStep_sound` — **V3**: `checkSameStep cap Γ V P P' = .ok true` ⇒ ∀ n, ∀ concrete σ₀, σ₀' (constants, the
    names of the respective program defined, equal on `V`): `SameLaw (V ++ dom Γ) (run P false n σ₀) (run P' false n σ₀')`
    and both runs satisfy Γ.  (The inductiveness of Γ for both programs is PART of the check — no separate call of
    `types_inductive` is needed.)
  * `checkSameStep_moments` — hence `momentU P M n σ₀ = momentU P' M n σ₀'` for every monomial `M` over the observed
    variables, whenever both are defined.

  Restrictions: `FragmentI` (guarded assignments, nested `ite`; no `simult`, no continuous draws); un-merged runs;
  Γ must be established by BOTH init blocks (typed variables without initial assignment stay symbolic: the check then
  succeeds only if they are overwritten before they are read, which is what normalisation guarantees for its
  auxiliaries); initial stores must define every name of their program (the harness's stores do).
-/
import Mathlib.Tactic
import Polar.ValidateSim
import PolarProofs.PolyEval
import PolarProofs.Validate
open Polar Polar.Validate

namespace Polar.VP

/-! ### simulation for the fragment with `ite`, with domain bookkeeping

`Dom S σ`: every variable the symbolic store defines is defined in the concrete store (so that the concrete
projection to the observed variables exists whenever the symbolic one does). -/

def Dom (S σ : Store) : Prop := ∀ x, S.get? x ≠ none → σ.get? x ≠ none

theorem Dom.set {S σ : Store} (h : Dom S σ) (x : String) (v v' : MPoly) : Dom (S.set x v) (σ.set x v') := by
  intro y hy
  rw [store_get_set] at hy ⊢
  by_cases hyx : y = x
  · simp [hyx]
  · simp only [hyx, if_false] at hy ⊢
    exact h y hy

theorem Dom.set_left {S σ : Store} (h : Dom S σ) (x : String) (v : MPoly) (hx : σ.get? x ≠ none) :
    Dom (S.set x v) σ := by
  intro y hy
  rw [store_get_set] at hy
  by_cases hyx : y = x
  · rw [hyx]; exact hx
  · simp only [hyx, if_false] at hy
    exact h y hy

theorem Dom.refl (σ : Store) : Dom σ σ := fun _ h => h

def PRelD (ρ : String → Rat) (a b : Rat × Path) : Prop :=
  a.1 = b.1 ∧ Rel ρ a.2.vals b.2.vals ∧ Dom a.2.vals b.2.vals

theorem PRelD.toPRel {ρ : String → Rat} {a b : Rat × Path} (h : PRelD ρ a b) : PRel ρ a b := ⟨h.1, h.2.1⟩

theorem outsD_sim {ρ : String → Rat} {ps pc : Path} (h : Rel ρ ps.vals pc.vals) (hd : Dom ps.vals pc.vals)
    (x : String) {os oc : List (Rat × MPoly × List Atom)} (ho : List.Forall₂ (ORel ρ) os oc) :
    List.Forall₂ (PRelD ρ)
      (os.map (fun o => (o.1, ({ vals := ps.vals.set x o.2.1, atoms := o.2.2 } : Path))))
      (oc.map (fun o => (o.1, ({ vals := pc.vals.set x o.2.1, atoms := o.2.2 } : Path)))) := by
  induction ho with
  | nil => exact List.Forall₂.nil
  | @cons o o' _ _ hoo _ ih =>
    simp only [List.map_cons]
    refine List.Forall₂.cons ⟨hoo.1, ?_, hd.set x _ _⟩ ih
    simp only
    rw [hoo.2]
    exact h.set x _

theorem assignD_sim {ρ : String → Rat} {ps pc : Path} (h : Rel ρ ps.vals pc.vals) (hd : Dom ps.vals pc.vals)
    (x : String) (rhs : Rhs) (g : Cond) (d : String) (hok : rhsOK rhs = true) {Ds Dc : WD}
    (hs : execStmt (.assign x rhs g d) ps = .ok Ds) (hc : execStmt (.assign x rhs g d) pc = .ok Dc) :
    List.Forall₂ (PRelD ρ) Ds Dc := by
  rw [execStmt] at hs hc
  obtain ⟨b, hb, hs⟩ := bind_ok.mp hs
  obtain ⟨b', hb', hc⟩ := bind_ok.mp hc
  have := evalCond_sim h g hb hb'
  subst this
  cases b' with
  | true =>
    simp only [if_true] at hs hc
    obtain ⟨os, ho, hs⟩ := bind_ok.mp hs
    obtain ⟨oc, ho', hc⟩ := bind_ok.mp hc
    rw [pure_ok] at hs hc
    subst hs hc
    exact outsD_sim h hd x (rhs_sim h rhs hok ho ho')
  | false =>
    simp only [Bool.false_eq_true, if_false] at hs hc
    cases hg : ps.vals.get? d with
    | none => simp [hg, throw_ne_ok] at hs
    | some v =>
      cases hg' : pc.vals.get? d with
      | none => simp [hg', throw_ne_ok] at hc
      | some v' =>
        simp only [hg, hg', pure, Except.pure, Except.ok.injEq] at hs hc
        subst hs hc
        refine List.Forall₂.cons ⟨rfl, ?_, hd.set x _ _⟩ List.Forall₂.nil
        simp only
        rw [h d v v' hg hg']
        exact h.set x v

/-- lifting a position-wise relation through the weighted bind -/
theorem bindG {R : Rat × Path → Rat × Path → Prop} (hw : ∀ a b, R a b → a.1 = b.1)
    (hsc : ∀ (w : Rat) a b, R a b → R (w * a.1, a.2) (w * b.1, b.2))
    {f f' : Path → M WD} {Ds Dc : WD} (hd : List.Forall₂ R Ds Dc)
    (hf : ∀ a b, R a b → ∀ Da Db, f a.2 = .ok Da → f' b.2 = .ok Db → List.Forall₂ R Da Db)
    {Es Ec : WD} (hs : bindW Ds f = .ok Es) (hc : bindW Dc f' = .ok Ec) : List.Forall₂ R Es Ec := by
  induction hd generalizing Es Ec with
  | nil =>
    rw [bindW_nil_ok hs, bindW_nil_ok hc]
    exact List.Forall₂.nil
  | @cons a b ta tb hab _ ih =>
    obtain ⟨w, q⟩ := a
    obtain ⟨w', q'⟩ := b
    obtain ⟨A, B, hA, hB, rfl⟩ := bindW_cons_ok hs
    obtain ⟨A', B', hA', hB', rfl⟩ := bindW_cons_ok hc
    have hww : w = w' := hw _ _ hab
    subst hww
    refine forall₂_append' ?_ (ih hB hB')
    have hAA := hf _ _ hab A A' hA hA'
    clear hA hA' hs hc
    induction hAA with
    | nil => exact List.Forall₂.nil
    | cons hxy _ ih2 =>
      simp only [List.map_cons]
      exact List.Forall₂.cons (hsc w _ _ hxy) ih2

theorem PRelD.scale {ρ : String → Rat} (w : Rat) (a b : Rat × Path) (h : PRelD ρ a b) :
    PRelD ρ (w * a.1, a.2) (w * b.1, b.2) := ⟨by simp only; rw [h.1], h.2⟩

mutual
theorem stmtD_sim {ρ : String → Rat} (st : Stmt) (hok : stmtOKI st = true) {ps pc : Path}
    (h : Rel ρ ps.vals pc.vals) (hd : Dom ps.vals pc.vals) {Ds Dc : WD}
    (hs : execStmt st ps = .ok Ds) (hc : execStmt st pc = .ok Dc) : List.Forall₂ (PRelD ρ) Ds Dc := by
  cases st with
  | assign x rhs g d =>
    exact assignD_sim h hd x rhs g d (by simpa [stmtOKI] using hok) hs hc
  | simult xs rhss => simp [stmtOKI] at hok
  | ite c t e =>
    simp only [stmtOKI, Bool.and_eq_true] at hok
    rw [execStmt] at hs hc
    obtain ⟨b, hb, hs⟩ := bind_ok.mp hs
    obtain ⟨b', hb', hc⟩ := bind_ok.mp hc
    have := evalCond_sim h c hb hb'
    subst this
    cases b' with
    | true =>
      simp only [if_true] at hs hc
      exact blockD_sim t hok.1 h hd hs hc
    | false =>
      simp only [Bool.false_eq_true, if_false] at hs hc
      exact blockD_sim e hok.2 h hd hs hc

theorem blockD_sim {ρ : String → Rat} (blk : List Stmt) (hok : blockOKI blk = true) {ps pc : Path}
    (h : Rel ρ ps.vals pc.vals) (hd : Dom ps.vals pc.vals) {Ds Dc : WD}
    (hs : execBlock blk ps = .ok Ds) (hc : execBlock blk pc = .ok Dc) : List.Forall₂ (PRelD ρ) Ds Dc := by
  cases blk with
  | nil =>
    rw [execBlock_nil, pure_ok] at hs hc
    subst hs hc
    exact List.Forall₂.cons ⟨rfl, h, hd⟩ List.Forall₂.nil
  | cons st rest =>
    simp only [blockOKI, Bool.and_eq_true] at hok
    rw [execBlock_cons] at hs hc
    obtain ⟨d, h1, hs⟩ := bind_ok.mp hs
    obtain ⟨d', h1', hc⟩ := bind_ok.mp hc
    have hdd := stmtD_sim st hok.1 h hd h1 h1'
    exact bindG (fun _ _ hab => hab.1) PRelD.scale hdd
      (fun a b hab Da Db e1 e2 => blockD_sim rest hok.2 hab.2.1 hab.2.2 e1 e2) hs hc
end

theorem iterD_sim {ρ : String → Rat} (P : Program) (hok : blockOKI P.body = true) {ps pc : Path}
    (h : Rel ρ ps.vals pc.vals) (hd : Dom ps.vals pc.vals) {Ds Dc : WD}
    (hs : iter P ps = .ok Ds) (hc : iter P pc = .ok Dc) : List.Forall₂ (PRelD ρ) Ds Dc := by
  simp only [iter] at hs hc
  obtain ⟨b, hb, hs⟩ := bind_ok.mp hs
  obtain ⟨b', hb', hc⟩ := bind_ok.mp hc
  have := evalCond_sim h P.guard hb hb'
  subst this
  cases b' with
  | true =>
    simp only [if_true] at hs hc
    exact blockD_sim P.body hok h hd hs hc
  | false =>
    simp only [Bool.false_eq_true, if_false] at hs hc
    rw [pure_ok] at hs hc
    subst hs hc
    exact List.Forall₂.cons ⟨rfl, h, hd⟩ List.Forall₂.nil

/-! ### weighted sums -/

/-- Σ over the paths of weight · g(path) -/
def wsum (D : WD) (g : Path → Rat) : Rat := (D.map (fun wq => wq.1 * g wq.2)).sum

/-- Σ over the projections of weight · F(projection) -/
def wsumK (l : List (Key × Rat)) (F : Key → Rat) : Rat := (l.map (fun kw => kw.2 * F kw.1)).sum

theorem wsum_nil (g : Path → Rat) : wsum [] g = 0 := rfl

theorem wsum_cons (w : Rat) (q : Path) (t : WD) (g : Path → Rat) :
    wsum ((w, q) :: t) g = w * g q + wsum t g := by
  simp [wsum]

theorem wsum_append (A B : WD) (g : Path → Rat) : wsum (A ++ B) g = wsum A g + wsum B g := by
  simp [wsum]

theorem wsum_scale (w : Rat) (A : WD) (g : Path → Rat) :
    wsum (A.map (fun x => (w * x.1, x.2))) g = w * wsum A g := by
  induction A with
  | nil => simp [wsum]
  | cons x t ih =>
    obtain ⟨u, q⟩ := x
    rw [List.map_cons, wsum_cons, wsum_cons, ih]
    ring

theorem wsum_congr {D : WD} {g g' : Path → Rat} (h : ∀ wq ∈ D, wq.1 ≠ 0 → g wq.2 = g' wq.2) :
    wsum D g = wsum D g' := by
  induction D with
  | nil => rfl
  | cons x t ih =>
    obtain ⟨w, q⟩ := x
    rw [wsum_cons, wsum_cons, ih (fun wq hwq => h wq (by simp [hwq]))]
    by_cases hw : w = 0
    · simp [hw]
    · rw [h (w, q) (by simp) hw]

/-- the law of total expectation for the weighted bind, with pure sums -/
theorem wsum_bindW {D E : WD} {F : Path → M WD} {g G : Path → Rat} (hb : bindW D F = .ok E)
    (hG : ∀ wq ∈ D, wq.1 ≠ 0 → ∀ A, F wq.2 = .ok A → wsum A g = G wq.2) : wsum E g = wsum D G := by
  induction D generalizing E with
  | nil =>
    rw [bindW_nil_ok hb]; rfl
  | cons x t ih =>
    obtain ⟨w, q⟩ := x
    obtain ⟨A, B, hA, hB, rfl⟩ := bindW_cons_ok hb
    rw [wsum_append, wsum_scale, wsum_cons, ih hB (fun wq hwq => hG wq (by simp [hwq]))]
    by_cases hw : w = 0
    · simp [hw]
    · rw [hG (w, q) (by simp) hw A hA]

theorem wsumK_cons (k : Key) (w : Rat) (l : List (Key × Rat)) (F : Key → Rat) :
    wsumK ((k, w) :: l) F = w * F k + wsumK l F := by
  simp [wsumK]

theorem wsumK_congr {l : List (Key × Rat)} {F F' : Key → Rat} (h : ∀ kw ∈ l, kw.2 ≠ 0 → F kw.1 = F' kw.1) :
    wsumK l F = wsumK l F' := by
  induction l with
  | nil => rfl
  | cons x t ih =>
    obtain ⟨k, w⟩ := x
    rw [wsumK_cons, wsumK_cons, ih (fun kw hkw => h kw (by simp [hkw]))]
    by_cases hw : w = 0
    · simp [hw]
    · rw [h (k, w) (by simp) hw]

/-! ### equal masses ⇒ equal sums -/

theorem mass_nil (k : Key) : mass [] k = 0 := rfl

theorem mass_cons (k0 : Key) (w0 : Rat) (l : List (Key × Rat)) (k : Key) :
    mass ((k0, w0) :: l) k = (if k0 = k then w0 else 0) + mass l k := by
  simp only [mass, List.foldr_cons]
  split <;> simp

theorem wsumK_eq_finset (l : List (Key × Rat)) (F : Key → Rat) (S : Finset Key) (hS : ∀ kw ∈ l, kw.1 ∈ S) :
    wsumK l F = ∑ k ∈ S, mass l k * F k := by
  induction l with
  | nil => simp [wsumK, mass_nil]
  | cons x t ih =>
    obtain ⟨k0, w0⟩ := x
    rw [wsumK_cons, ih (fun kw hkw => hS kw (by simp [hkw]))]
    have h0 : k0 ∈ S := hS (k0, w0) (by simp)
    simp only [mass_cons, add_mul, Finset.sum_add_distrib]
    congr 1
    rw [Finset.sum_eq_single k0]
    · simp
    · intro b _ hb
      have : ¬ k0 = b := fun h => hb h.symm
      simp [this]
    · intro h; exact absurd h0 h

theorem firstDiff_none {l l' : List (Key × Rat)} (h : firstDiff l l' = none) :
    ∀ kw ∈ l ++ l', mass l kw.1 = mass l' kw.1 := by
  intro kw hkw
  simp only [firstDiff, Option.map_eq_none_iff, List.find?_eq_none] at h
  have := h kw hkw
  simpa using this

/-- two weighted lists with the same total weight on every projection have the same sum of every function -/
theorem wsumK_of_sameMass {l l' : List (Key × Rat)} (h : firstDiff l l' = none) (F : Key → Rat) :
    wsumK l F = wsumK l' F := by
  have hm := firstDiff_none h
  let S : Finset Key := ((l ++ l').map Prod.fst).toFinset
  have hS : ∀ kw ∈ l ++ l', kw.1 ∈ S := by
    intro kw hkw
    simp only [S, List.mem_toFinset, List.mem_map]
    exact ⟨kw, hkw, rfl⟩
  rw [wsumK_eq_finset l F S (fun kw hkw => hS kw (by simp [hkw])),
      wsumK_eq_finset l' F S (fun kw hkw => hS kw (by simp [hkw]))]
  refine Finset.sum_congr rfl (fun k hk => ?_)
  simp only [S, List.mem_toFinset, List.mem_map] at hk
  obtain ⟨kw, hkw, rfl⟩ := hk
  rw [hm kw hkw]

/-! ### projections: symbolic vs. concrete -/

/-- the observed tuple of a concrete path -/
def projC (O : List String) (q : Path) : List (Option MPoly) := O.map q.vals.get?

/-- the concrete tuple a symbolic projection denotes under the valuation `ρ` -/
def concKey (ρ : String → Rat) (k : Key) : List (Option MPoly) :=
  k.map (fun p => some (MPoly.const (MPoly.eval ρ p)))

theorem projKey_sim {ρ : String → Rat} {S σ : Store} (h : Rel ρ S σ) (hd : Dom S σ) (O : List String) {k : Key}
    (hk : projKey S O = some k) : O.map σ.get? = concKey ρ k := by
  induction O generalizing k with
  | nil =>
    simp only [projKey, Option.some.injEq] at hk
    subst hk; rfl
  | cons x xs ih =>
    simp only [projKey] at hk
    cases hg : S.get? x with
    | none => simp [hg] at hk
    | some v =>
      cases hr : projKey S xs with
      | none => simp [hg, hr] at hk
      | some k' =>
        simp only [hg, hr, Option.some.injEq] at hk
        subst hk
        cases hg' : σ.get? x with
        | none => exact absurd hg' (hd x (by simp [hg]))
        | some v' =>
          simp only [List.map_cons, concKey, hg']
          rw [h x v v' hg hg', MPoly.eval_normalize]
          congr 1
          exact ih hr

theorem projList_sim {ρ : String → Rat} (O : List String) {Ds D : WD} (hsim : List.Forall₂ (PRelD ρ) Ds D)
    {l : List (Key × Rat)} (hl : projList O Ds = some l) (f : List (Option MPoly) → Rat) :
    wsum D (fun q => f (projC O q)) = wsumK l (fun k => f (concKey ρ k)) := by
  induction hsim generalizing l with
  | nil =>
    simp only [projList, Option.some.injEq] at hl
    subst hl; rfl
  | @cons a b ta tb hab _ ih =>
    obtain ⟨w, qs⟩ := a
    obtain ⟨w', qc⟩ := b
    simp only [projList] at hl
    cases hk : projKey qs.vals O with
    | none => simp [hk] at hl
    | some k =>
      cases hr : projList O ta with
      | none => simp [hk, hr] at hl
      | some l' =>
        simp only [hk, hr, Option.some.injEq] at hl
        subst hl
        have hw : w = w' := hab.1
        subst hw
        rw [wsum_cons, wsumK_cons, ih hr]
        congr 2
        exact congrArg f (projKey_sim hab.2.1 hab.2.2 O hk)

/-! ### polynomials over the observed symbols -/

theorem mono_eval_congr {V : List String} {ρ ρ' : String → Rat} (hρ : ∀ x ∈ V, ρ x = ρ' x) {m : Mono}
    (hm : monoOver V m = true) : Mono.eval ρ m = Mono.eval ρ' m := by
  induction m with
  | nil => rfl
  | cons xe t ih =>
    simp only [monoOver, List.all_cons, Bool.and_eq_true, List.contains_eq_mem, decide_eq_true_eq] at hm
    rw [Mono.eval_cons, Mono.eval_cons, hρ xe.1 hm.1, ih (by simpa [monoOver] using hm.2)]

theorem poly_eval_congr {V : List String} {ρ ρ' : String → Rat} (hρ : ∀ x ∈ V, ρ x = ρ' x) {p : MPoly}
    (hp : polyOver V p = true) : MPoly.eval ρ p = MPoly.eval ρ' p := by
  induction p with
  | nil => rfl
  | cons t r ih =>
    simp only [polyOver, List.all_cons, Bool.and_eq_true] at hp
    rw [MPoly.eval_cons, MPoly.eval_cons, mono_eval_congr hρ hp.1, ih (by simpa [polyOver] using hp.2)]

theorem concKey_congr {V : List String} {ρ ρ' : String → Rat} (hρ : ∀ x ∈ V, ρ x = ρ' x) {k : Key}
    (hk : k.all (polyOver V) = true) : concKey ρ k = concKey ρ' k := by
  unfold concKey
  refine List.map_congr_left (fun p hp => ?_)
  rw [poly_eval_congr hρ (List.all_eq_true.mp hk p hp)]

theorem firstForeign_none {V : List String} {l : List (Key × Rat)} (h : firstForeign V l = none) :
    ∀ kw ∈ l, kw.2 ≠ 0 → kw.1.all (polyOver V) = true := by
  intro kw hkw hne
  simp only [firstForeign, List.find?_eq_none] at h
  have := h kw hkw
  simpa [hne] using this

/-- on projections over `V`, the sum only depends on the valuation of the `V`-symbols -/
theorem wsumK_val_congr {V : List String} {ρ ρ' : String → Rat} (hρ : ∀ x ∈ V, ρ x = ρ' x)
    {l : List (Key × Rat)} (hl : firstForeign V l = none) (f : List (Option MPoly) → Rat) :
    wsumK l (fun k => f (concKey ρ k)) = wsumK l (fun k => f (concKey ρ' k)) :=
  wsumK_congr (fun kw hkw hne => by
    rw [concKey_congr hρ (firstForeign_none hl kw hkw hne)])

/-! ### reading the check -/

theorem compareAt_none {Γ : TypeEnv} {V : List String} {P P' : Program} {stage : String} {a : Assign} {D D' : WD}
    (h : compareAt Γ (obsVars Γ V) V (symVarsI (obsVars Γ V) P) (symVarsI (obsVars Γ V) P') stage a D D' = .ok none) :
    ∃ l l', definedAll (symVarsI (obsVars Γ V) P) D = true ∧ definedAll (symVarsI (obsVars Γ V) P') D' = true ∧
      projList (obsVars Γ V) D = some l ∧ projList (obsVars Γ V) D' = some l' ∧
      badPath Γ D = none ∧ badPath Γ D' = none ∧ firstForeign V l = none ∧ firstDiff l l' = none := by
  unfold compareAt at h
  split at h
  · exact absurd h throw_ne_ok
  · rename_i hdef
    have hdef' : definedAll (symVarsI (obsVars Γ V) P) D = true ∧ definedAll (symVarsI (obsVars Γ V) P') D' = true := by
      simpa using hdef
    split at h
    · rename_i l l' hl hl'
      refine ⟨l, l', hdef'.1, hdef'.2, hl, hl', ?_⟩
      split at h
      · simp [pure, Except.pure] at h
      · simp [pure, Except.pure] at h
      · rename_i hb hb'
        refine ⟨hb, hb', ?_⟩
        split at h
        · simp [pure, Except.pure] at h
        · rename_i hf
          refine ⟨hf, ?_⟩
          split at h
          · simp [pure, Except.pure] at h
          · rename_i hd
            exact hd
    · exact absurd h throw_ne_ok

theorem admissibleI_ok {cap : Nat} {Γ : TypeEnv} {P P' : Program} {u : Unit} (h : admissibleI cap Γ P P' = .ok u) :
    FragmentI P = true ∧ FragmentI P' = true ∧ ∀ e ∈ Γ, e.2 ≠ [] := by
  unfold admissibleI at h
  split at h
  · exact absurd h throw_ne_ok
  · rename_i hf
    have hf' : FragmentI P = true ∧ FragmentI P' = true := by simpa using hf
    split at h
    · exact absurd h throw_ne_ok
    · rename_i hne
      refine ⟨hf'.1, hf'.2, fun e he hnil => hne ?_⟩
      simp only [List.any_eq_true]
      exact ⟨e, he, by simp [hnil]⟩

theorem fragmentI_parts {P : Program} (h : FragmentI P = true) :
    blockOKI P.init = true ∧ blockOKI P.body = true := by
  simpa [FragmentI] using h

theorem sameStepCex_none {cap : Nat} {Γ : TypeEnv} {V : List String} {P P' : Program}
    (h : sameStepCex cap Γ V P P' = .ok none) :
    FragmentI P = true ∧ FragmentI P' = true ∧ (∀ e ∈ Γ, e.2 ≠ []) ∧
    (∃ D0 D0', execBlock P.init ⟨freeStore (symVarsI (obsVars Γ V) P), []⟩ = .ok D0 ∧
      execBlock P'.init ⟨freeStore (symVarsI (obsVars Γ V) P'), []⟩ = .ok D0' ∧
      compareAt Γ (obsVars Γ V) V (symVarsI (obsVars Γ V) P) (symVarsI (obsVars Γ V) P') "init" [] D0 D0' = .ok none) ∧
    ∀ a ∈ enumΓ Γ, sameStepAt Γ V P P' a = .ok none := by
  simp only [sameStepCex] at h
  obtain ⟨u, hu, h⟩ := bind_ok.mp h
  obtain ⟨hF, hF', hne⟩ := admissibleI_ok hu
  obtain ⟨D0, h0, h⟩ := bind_ok.mp h
  obtain ⟨D0', h0', h⟩ := bind_ok.mp h
  obtain ⟨r, hr, h⟩ := bind_ok.mp h
  cases r with
  | some c => simp [pure, Except.pure] at h
  | none =>
    simp only at h
    exact ⟨hF, hF', hne, ⟨D0, D0', h0, h0', hr⟩, firstFail_none h⟩

theorem sameStepAt_none {Γ : TypeEnv} {V : List String} {P P' : Program} {a : Assign}
    (h : sameStepAt Γ V P P' a = .ok none) :
    ∃ D D', iter P ⟨assignStore (freeStore (symVarsI (obsVars Γ V) P)) a, []⟩ = .ok D ∧
      iter P' ⟨assignStore (freeStore (symVarsI (obsVars Γ V) P')) a, []⟩ = .ok D' ∧
      compareAt Γ (obsVars Γ V) V (symVarsI (obsVars Γ V) P) (symVarsI (obsVars Γ V) P') "step" a D D' = .ok none := by
  simp only [sameStepAt] at h
  obtain ⟨D, hD, h⟩ := bind_ok.mp h
  obtain ⟨D', hD', h⟩ := bind_ok.mp h
  exact ⟨D, D', hD, hD', h⟩

/-! ### invariants of the concrete runs -/

/-- every listed name is set -/
def DefAll (xs : List String) (σ : Store) : Prop := ∀ x ∈ xs, σ.get? x ≠ none

/-- constants only, types respected, all names of the program set -/
def InvX (Γ : TypeEnv) (xs : List String) (q : Path) : Prop := Inv Γ q ∧ DefAll xs q.vals

theorem dom_nil (σ : Store) : Dom [] σ := by
  intro x h
  simp [store_get_nil] at h

theorem dom_free {σ : Store} (xs : List String) (hxs : DefAll xs σ) (S : Store) (h : Dom S σ) :
    Dom (xs.foldl (fun s x => s.set x (MPoly.var x)) S) σ := by
  induction xs generalizing S with
  | nil => exact h
  | cons x t ih =>
    simp only [List.foldl_cons]
    exact ih (fun y hy => hxs y (by simp [hy])) _ (h.set_left x _ (hxs x (by simp)))

theorem dom_assign {σ : Store} (a : Assign) (ha : ∀ xc ∈ a, σ.get? xc.1 ≠ none) (S : Store) (h : Dom S σ) :
    Dom (assignStore S a) σ := by
  unfold assignStore
  induction a generalizing S with
  | nil => exact h
  | cons xc t ih =>
    simp only [List.foldl_cons]
    exact ih (fun y hy => ha y (by simp [hy])) _ (h.set_left xc.1 _ (ha xc (by simp)))

theorem obs_sub_symVars (O : List String) (P : Program) : ∀ x ∈ O, x ∈ symVarsI O P := by
  intro x hx
  simp [symVarsI, hx]

theorem typed_in_obs {Γ : TypeEnv} {V : List String} {e : String × List Rat} (he : e ∈ Γ) : e.1 ∈ obsVars Γ V := by
  simp only [obsVars, List.mem_append, List.mem_map]
  exact Or.inr ⟨e, he, rfl⟩

theorem dom_symStore {Γ : TypeEnv} {V : List String} (P : Program) {σ : Store}
    (hdef : DefAll (symVarsI (obsVars Γ V) P) σ) :
    Dom (assignStore (freeStore (symVarsI (obsVars Γ V) P)) (stateOf Γ σ)) σ := by
  refine dom_assign _ (fun xc hxc => ?_) _ (dom_free _ hdef [] (dom_nil σ))
  simp only [stateOf, List.mem_map] at hxc
  obtain ⟨e, he, rfl⟩ := hxc
  exact hdef e.1 (obs_sub_symVars _ P _ (typed_in_obs he))

theorem definedAll_spec {xs : List String} {D : WD} (h : definedAll xs D = true) :
    ∀ wq ∈ D, ∀ x ∈ xs, wq.2.vals.get? x ≠ none := by
  intro wq hwq x hx
  simp only [definedAll, List.all_eq_true] at h
  have := h wq hwq x hx
  intro hn
  simp [hn] at this

/-- transfer of the invariant along a successful symbolic execution -/
theorem invX_transfer {ρ : String → Rat} {Γ : TypeEnv} {xs : List String} {Ds Dc : WD}
    (hsim : List.Forall₂ (PRelD ρ) Ds Dc) (hself : List.Forall₂ (PRelD ρ) Dc Dc)
    (hbad : badPath Γ Ds = none) (hdef : definedAll xs Ds = true) : AllInv (InvX Γ xs) Dc := by
  intro wq hwq hne
  refine ⟨inv_transfer (hsim.imp (fun _ _ h => h.toPRel)) (hself.imp (fun _ _ h => h.toPRel)) hbad wq hwq hne, ?_⟩
  obtain ⟨a, ha, hr⟩ := forall₂_mem_right hsim hwq
  intro x hx
  exact hr.2.2 x (definedAll_spec hdef a ha x hx)

/-! ### one iteration on the concrete side, computed from the symbolic outcomes -/

/-- what the check establishes about the outcomes `D`, `D'` of the two symbolic executions -/
def Agree (Γ : TypeEnv) (V : List String) (P P' : Program) (D D' : WD) : Prop :=
  ∃ l l', definedAll (symVarsI (obsVars Γ V) P) D = true ∧ definedAll (symVarsI (obsVars Γ V) P') D' = true ∧
    projList (obsVars Γ V) D = some l ∧ projList (obsVars Γ V) D' = some l' ∧
    badPath Γ D = none ∧ badPath Γ D' = none ∧ firstForeign V l = none ∧ firstDiff l l' = none

/-- what the step part of the check establishes -/
def StepFacts (Γ : TypeEnv) (V : List String) (P P' : Program) : Prop :=
  blockOKI P.body = true ∧ blockOKI P'.body = true ∧ (∀ e ∈ Γ, e.2 ≠ []) ∧
  ∀ a ∈ enumΓ Γ, ∃ D D',
    iter P ⟨assignStore (freeStore (symVarsI (obsVars Γ V) P)) a, []⟩ = .ok D ∧
    iter P' ⟨assignStore (freeStore (symVarsI (obsVars Γ V) P')) a, []⟩ = .ok D' ∧ Agree Γ V P P' D D'

/-- the projected symbolic outcomes of `iter P` from the Γ-state `a` -/
def symList (Γ : TypeEnv) (V : List String) (P : Program) (a : Assign) : List (Key × Rat) :=
  match iter P ⟨assignStore (freeStore (symVarsI (obsVars Γ V) P)) a, []⟩ with
  | .ok D => (projList (obsVars Γ V) D).getD []
  | .error _ => []

theorem symList_eq {Γ : TypeEnv} {V : List String} {P : Program} {a : Assign} {D : WD} {l : List (Key × Rat)}
    (hD : iter P ⟨assignStore (freeStore (symVarsI (obsVars Γ V) P)) a, []⟩ = .ok D)
    (hl : projList (obsVars Γ V) D = some l) : symList Γ V P a = l := by
  simp [symList, hD, hl]

/-- the expectation of `f(observed tuple)` after one iteration from `q`, read off the symbolic outcomes of `P` -/
def Hval (Γ : TypeEnv) (V : List String) (P : Program) (f : List (Option MPoly) → Rat) (q : Path) : Rat :=
  wsumK (symList Γ V P (stateOf Γ q.vals)) (fun k => f (concKey (valOf q.vals) k))

/-- one concrete iteration of a program `Q` against its symbolic outcomes -/
theorem step_eval {Γ : TypeEnv} {V : List String} {Q : Program} (hF : blockOKI Q.body = true) {q : Path}
    (hq : InvX Γ (symVarsI (obsVars Γ V) Q) q) {Ds : WD}
    (hDs : iter Q ⟨assignStore (freeStore (symVarsI (obsVars Γ V) Q)) (stateOf Γ q.vals), []⟩ = .ok Ds)
    {l : List (Key × Rat)} (hl : projList (obsVars Γ V) Ds = some l) (hbad : badPath Γ Ds = none)
    (hdef : definedAll (symVarsI (obsVars Γ V) Q) Ds = true) {D : WD} (hD : iter Q q = .ok D)
    (f : List (Option MPoly) → Rat) :
    wsum D (fun r => f (projC (obsVars Γ V) r)) = wsumK l (fun k => f (concKey (valOf q.vals) k)) ∧
    AllInv (InvX Γ (symVarsI (obsVars Γ V) Q)) D := by
  have hrel := rel_symStore hq.1.1 hq.1.2 (symVarsI (obsVars Γ V) Q)
  have hdom := dom_symStore (Γ := Γ) (V := V) Q hq.2
  have hsim := iterD_sim Q hF (ps := ⟨_, []⟩) hrel hdom hDs hD
  have hself := iterD_sim Q hF ((concStore_iff_rel (valOf q.vals) _).mp hq.1.1) (Dom.refl _) hD hD
  exact ⟨projList_sim _ hsim hl f, invX_transfer hsim hself hbad hdef⟩

theorem projC_get {O : List String} {q1 q2 : Path} (h : projC O q1 = projC O q2) {x : String} (hx : x ∈ O) :
    q1.vals.get? x = q2.vals.get? x := by
  unfold projC at h
  exact (List.map_inj_left.mp h) x hx

theorem stateOf_congr {Γ : TypeEnv} {σ1 σ2 : Store} (h : ∀ e ∈ Γ, σ1.get? e.1 = σ2.get? e.1) :
    stateOf Γ σ1 = stateOf Γ σ2 := by
  unfold stateOf
  refine List.map_congr_left (fun e he => ?_)
  rw [h e he]

theorem valOf_congr {σ1 σ2 : Store} {x : String} (h : σ1.get? x = σ2.get? x) : valOf σ1 x = valOf σ2 x := by
  simp [valOf, h]

theorem obs_of_V {Γ : TypeEnv} {V : List String} {x : String} (hx : x ∈ V) : x ∈ obsVars Γ V := by
  simp [obsVars, hx]

/-- the value only depends on the observed tuple of the state -/
theorem hval_congr {Γ : TypeEnv} {V : List String} {P P' : Program} (hS : StepFacts Γ V P P')
    (f : List (Option MPoly) → Rat) {q1 q2 : Path} (h1 : Inv Γ q1)
    (h : projC (obsVars Γ V) q1 = projC (obsVars Γ V) q2) : Hval Γ V P f q1 = Hval Γ V P f q2 := by
  have hst : stateOf Γ q1.vals = stateOf Γ q2.vals :=
    stateOf_congr (fun e he => projC_get h (typed_in_obs he))
  obtain ⟨D, D', hD, _, l, l', _, _, hl, _, _, _, hfor, _⟩ := hS.2.2.2 _ (stateOf_mem hS.2.2.1 h1.2)
  unfold Hval
  rw [← hst, symList_eq hD hl]
  exact wsumK_val_congr (fun x hx => valOf_congr (projC_get h (obs_of_V hx))) hfor f

/-- **One-step lemma.**  From states of `P` and of `P'` that satisfy the invariant, the expectation of any function of
    the observed tuple after one iteration is the same function `Hval` of the state — for both programs. -/
theorem step_P {Γ : TypeEnv} {V : List String} {P P' : Program} (hS : StepFacts Γ V P P')
    (f : List (Option MPoly) → Rat) {q : Path} (hq : InvX Γ (symVarsI (obsVars Γ V) P) q) {D : WD}
    (hD : iter P q = .ok D) :
    wsum D (fun r => f (projC (obsVars Γ V) r)) = Hval Γ V P f q ∧
    AllInv (InvX Γ (symVarsI (obsVars Γ V) P)) D := by
  obtain ⟨Ds, Ds', hDs, _, l, l', hdef, _, hl, _, hbad, _, _, _⟩ := hS.2.2.2 _ (stateOf_mem hS.2.2.1 hq.1.2)
  have := step_eval hS.1 hq hDs hl hbad hdef hD f
  refine ⟨?_, this.2⟩
  rw [this.1, Hval, symList_eq hDs hl]

theorem step_P' {Γ : TypeEnv} {V : List String} {P P' : Program} (hS : StepFacts Γ V P P')
    (f : List (Option MPoly) → Rat) {q : Path} (hq : InvX Γ (symVarsI (obsVars Γ V) P') q) {D : WD}
    (hD : iter P' q = .ok D) :
    wsum D (fun r => f (projC (obsVars Γ V) r)) = Hval Γ V P f q ∧
    AllInv (InvX Γ (symVarsI (obsVars Γ V) P')) D := by
  obtain ⟨Ds, Ds', hDs, hDs', l, l', _, hdef', hl, hl', _, hbad', _, hdiff⟩ :=
    hS.2.2.2 _ (stateOf_mem hS.2.2.1 hq.1.2)
  have := step_eval hS.2.1 hq hDs' hl' hbad' hdef' hD f
  refine ⟨?_, this.2⟩
  rw [this.1, Hval, symList_eq hDs hl]
  exact (wsumK_of_sameMass hdiff _).symm

/-- same law over the observed tuple: every test function has the same expectation -/
def SameLaw (O : List String) (E E' : WD) : Prop :=
  ∀ f : List (Option MPoly) → Rat, wsum E (fun r => f (projC O r)) = wsum E' (fun r => f (projC O r))

/-- **Bisimulation step.**  Invariants and equality of the laws over the observed tuple are preserved by one more
    iteration of every path. -/
theorem sim_step {Γ : TypeEnv} {V : List String} {P P' : Program} (hS : StepFacts Γ V P P') {E E' E1 E1' : WD}
    (hE : AllInv (InvX Γ (symVarsI (obsVars Γ V) P)) E) (hE' : AllInv (InvX Γ (symVarsI (obsVars Γ V) P')) E')
    (heq : SameLaw (obsVars Γ V) E E')
    (hb : bindW E (iter P) = .ok E1) (hb' : bindW E' (iter P') = .ok E1') :
    AllInv (InvX Γ (symVarsI (obsVars Γ V) P)) E1 ∧ AllInv (InvX Γ (symVarsI (obsVars Γ V) P')) E1' ∧
    SameLaw (obsVars Γ V) E1 E1' := by
  refine ⟨bindW_inv (fun q hq D hD => (step_P hS (fun _ => 0) hq hD).2) hE hb,
          bindW_inv (fun q hq D hD => (step_P' hS (fun _ => 0) hq hD).2) hE' hb', ?_⟩
  intro f
  classical
  let h : List (Option MPoly) → Rat := fun t =>
    if hex : ∃ q, Inv Γ q ∧ projC (obsVars Γ V) q = t then Hval Γ V P f hex.choose else 0
  have hh : ∀ q, Inv Γ q → h (projC (obsVars Γ V) q) = Hval Γ V P f q := by
    intro q hq
    have hex : ∃ q', Inv Γ q' ∧ projC (obsVars Γ V) q' = projC (obsVars Γ V) q := ⟨q, hq, rfl⟩
    simp only [h, dif_pos hex]
    exact hval_congr hS f hex.choose_spec.1 hex.choose_spec.2
  rw [wsum_bindW (G := fun q => h (projC (obsVars Γ V) q)) hb
        (fun wq hwq hne A hA => by rw [(step_P hS f (hE wq hwq hne) hA).1, hh _ (hE wq hwq hne).1]),
      wsum_bindW (G := fun q => h (projC (obsVars Γ V) q)) hb'
        (fun wq hwq hne A hA => by rw [(step_P' hS f (hE' wq hwq hne) hA).1, hh _ (hE' wq hwq hne).1])]
  exact heq h

/-! ### the init blocks -/

def InitFacts (Γ : TypeEnv) (V : List String) (P P' : Program) : Prop :=
  blockOKI P.init = true ∧ blockOKI P'.init = true ∧ ∃ D D',
    execBlock P.init ⟨freeStore (symVarsI (obsVars Γ V) P), []⟩ = .ok D ∧
    execBlock P'.init ⟨freeStore (symVarsI (obsVars Γ V) P'), []⟩ = .ok D' ∧ Agree Γ V P P' D D'

theorem init_eval {Γ : TypeEnv} {V : List String} {Q : Program} (hF : blockOKI Q.init = true) {σ₀ : Store}
    (hc : ConcStore σ₀) (hd : DefAll (symVarsI (obsVars Γ V) Q) σ₀) {Ds : WD}
    (hDs : execBlock Q.init ⟨freeStore (symVarsI (obsVars Γ V) Q), []⟩ = .ok Ds)
    {l : List (Key × Rat)} (hl : projList (obsVars Γ V) Ds = some l) (hbad : badPath Γ Ds = none)
    (hdef : definedAll (symVarsI (obsVars Γ V) Q) Ds = true) {D : WD} (hD : execBlock Q.init ⟨σ₀, []⟩ = .ok D)
    (f : List (Option MPoly) → Rat) :
    wsum D (fun r => f (projC (obsVars Γ V) r)) = wsumK l (fun k => f (concKey (valOf σ₀) k)) ∧
    AllInv (InvX Γ (symVarsI (obsVars Γ V) Q)) D := by
  have hrel := rel_freeStore hc (symVarsI (obsVars Γ V) Q)
  have hdom : Dom (freeStore (symVarsI (obsVars Γ V) Q)) σ₀ := dom_free _ hd [] (dom_nil σ₀)
  have hsim := blockD_sim Q.init hF (ps := ⟨_, []⟩) (pc := ⟨σ₀, []⟩) hrel hdom hDs hD
  have hself := blockD_sim Q.init hF (ps := ⟨σ₀, []⟩) (pc := ⟨σ₀, []⟩)
    ((concStore_iff_rel (valOf σ₀) _).mp hc) (Dom.refl _) hD hD
  exact ⟨projList_sim _ hsim hl f, invX_transfer hsim hself hbad hdef⟩

theorem sim_init {Γ : TypeEnv} {V : List String} {P P' : Program} (hI : InitFacts Γ V P P') {σ₀ σ₀' : Store}
    (hc : ConcStore σ₀) (hc' : ConcStore σ₀')
    (hd : DefAll (symVarsI (obsVars Γ V) P) σ₀) (hd' : DefAll (symVarsI (obsVars Γ V) P') σ₀')
    (hV : ∀ x ∈ V, σ₀.get? x = σ₀'.get? x) {E E' : WD}
    (hE : execBlock P.init ⟨σ₀, []⟩ = .ok E) (hE' : execBlock P'.init ⟨σ₀', []⟩ = .ok E') :
    AllInv (InvX Γ (symVarsI (obsVars Γ V) P)) E ∧ AllInv (InvX Γ (symVarsI (obsVars Γ V) P')) E' ∧
    SameLaw (obsVars Γ V) E E' := by
  obtain ⟨hF, hF', D, D', hD, hD', l, l', hdef, hdef', hl, hl', hbad, hbad', hfor, hdiff⟩ := hI
  have h1 := fun f => init_eval hF hc hd hD hl hbad hdef hE f
  have h2 := fun f => init_eval hF' hc' hd' hD' hl' hbad' hdef' hE' f
  refine ⟨(h1 (fun _ => 0)).2, (h2 (fun _ => 0)).2, fun f => ?_⟩
  rw [(h1 f).1, (h2 f).1, ← wsumK_of_sameMass hdiff]
  exact wsumK_val_congr (fun x hx => valOf_congr (hV x hx)) hfor f

/-! ### all n -/

theorem sameLaw_run {Γ : TypeEnv} {V : List String} {P P' : Program} (hI : InitFacts Γ V P P')
    (hS : StepFacts Γ V P P') {σ₀ σ₀' : Store} (hc : ConcStore σ₀) (hc' : ConcStore σ₀')
    (hd : DefAll (symVarsI (obsVars Γ V) P) σ₀) (hd' : DefAll (symVarsI (obsVars Γ V) P') σ₀')
    (hV : ∀ x ∈ V, σ₀.get? x = σ₀'.get? x) :
    ∀ (n : Nat) (E E' : WD), run P false n σ₀ = .ok E → run P' false n σ₀' = .ok E' →
      AllInv (InvX Γ (symVarsI (obsVars Γ V) P)) E ∧ AllInv (InvX Γ (symVarsI (obsVars Γ V) P')) E' ∧
      SameLaw (obsVars Γ V) E E' := by
  intro n
  induction n with
  | zero =>
    intro E E' hE hE'
    simp only [run, Bool.false_eq_true, if_false, iterN] at hE hE'
    obtain ⟨D, hD, hE⟩ := bind_ok.mp hE
    obtain ⟨D', hD', hE'⟩ := bind_ok.mp hE'
    rw [pure_ok] at hE hE'
    subst hE hE'
    exact sim_init hI hc hc' hd hd' hV hD hD'
  | succ n ih =>
    intro E1 E1' hE hE'
    obtain ⟨E0, h0, hb⟩ := run_succ hE
    obtain ⟨E0', h0', hb'⟩ := run_succ hE'
    obtain ⟨i1, i2, i3⟩ := ih E0 E0' h0 h0'
    exact sim_step hS i1 i2 i3 hb hb'

theorem checkSameStep_facts {cap : Nat} {Γ : TypeEnv} {V : List String} {P P' : Program}
    (h : checkSameStep cap Γ V P P' = .ok true) : InitFacts Γ V P P' ∧ StepFacts Γ V P P' := by
  simp only [checkSameStep] at h
  obtain ⟨r, hr, h⟩ := bind_ok.mp h
  rw [pure_ok] at h
  have hnone : sameStepCex cap Γ V P P' = .ok none := by
    cases r with
    | none => exact hr
    | some c => simp at h
  obtain ⟨hF, hF', hne, ⟨D0, D0', h0, h0', hcmp⟩, hstep⟩ := sameStepCex_none hnone
  refine ⟨⟨(fragmentI_parts hF).1, (fragmentI_parts hF').1, D0, D0', h0, h0', compareAt_none hcmp⟩,
    ⟨(fragmentI_parts hF).2, (fragmentI_parts hF').2, hne, fun a ha => ?_⟩⟩
  obtain ⟨D, D', hD, hD', hc⟩ := sameStepAt_none (hstep a ha)
  exact ⟨D, D', hD, hD', compareAt_none hc⟩

/-- **V3 (translation validation for all n).**  If `checkSameStep cap Γ V P P'` accepts, then for EVERY number of
    iterations `n` and all concrete initial stores `σ₀` (for `P`) and `σ₀'` (for `P'`) that hold rational constants,
    define the variables of the respective program and agree on the observed source variables `V` (auxiliaries of
    `P'` are arbitrary): the un-merged runs have the same joint law over the observed tuple `V ++ dom Γ` — every
    function of the observed tuple has the same expectation — and both satisfy the types `Γ`. -/
theorem checkSameStep_sound {cap : Nat} {Γ : TypeEnv} {V : List String} {P P' : Program}
    (h : checkSameStep cap Γ V P P' = .ok true) (n : Nat) {σ₀ σ₀' : Store}
    (hc : ConcStore σ₀) (hc' : ConcStore σ₀')
    (hd : DefAll (symVarsI (obsVars Γ V) P) σ₀) (hd' : DefAll (symVarsI (obsVars Γ V) P') σ₀')
    (hV : ∀ x ∈ V, σ₀.get? x = σ₀'.get? x) {E E' : WD}
    (hE : run P false n σ₀ = .ok E) (hE' : run P' false n σ₀' = .ok E') :
    SameLaw (obsVars Γ V) E E' ∧ AllInv (Inv Γ) E ∧ AllInv (Inv Γ) E' := by
  obtain ⟨hI, hS⟩ := checkSameStep_facts h
  obtain ⟨i1, i2, i3⟩ := sameLaw_run hI hS hc hc' hd hd' hV n E E' hE hE'
  exact ⟨i3, i1.mono (fun _ hq => hq.1), i2.mono (fun _ hq => hq.1)⟩

/-! ### moments -/

def okv (x : M Rat) : Rat :=
  match x with
  | .ok v => v
  | .error _ => 0

theorem wsumM_eq_wsum {D : WD} {g : Path → M Rat} {r : Rat} (h : wsumM D g = .ok r) :
    r = wsum D (fun q => okv (g q)) := by
  induction D generalizing r with
  | nil =>
    rw [wsumM_nil] at h
    simp only [Except.ok.injEq] at h
    rw [← h]; rfl
  | cons x t ih =>
    obtain ⟨w, q⟩ := x
    obtain ⟨acc, v, h1, h2, rfl⟩ := wsumM_cons_ok h
    rw [wsum_cons, ← ih h1, h2]
    rfl

/-- the value of a monomial in a store of constants (0 when a variable is unset) -/
def mvVal (s : Store) (m : Mono) : Rat :=
  match monoValue s m with
  | .ok v => MPoly.eval (fun _ => 0) v
  | .error _ => 0

theorem monoValue_cons (s : Store) (xe : String × Nat) (m : Mono) :
    monoValue s (xe :: m) = (do
      let acc ← monoValue s m
      match s.get? xe.1 with
      | some v => pure (MPoly.mul (MPoly.pow v xe.2) acc)
      | none => throw s!"unset:{xe.1}") := by
  simp only [monoValue, List.foldrM_cons]
  rfl

theorem monoValue_congr {s1 s2 : Store} {m : Mono} (h : ∀ xe ∈ m, s1.get? xe.1 = s2.get? xe.1) :
    monoValue s1 m = monoValue s2 m := by
  induction m with
  | nil => rfl
  | cons xe t ih =>
    rw [monoValue_cons, monoValue_cons, ih (fun y hy => h y (by simp [hy])), h xe (by simp)]

theorem pathE_mvVal {q : Path} (hc : ConcStore q.vals) (m : Mono) : okv (pathE m q) = mvVal q.vals m := by
  unfold mvVal
  simp only [pathE]
  cases hm : monoValue q.vals m with
  | error e => rfl
  | ok v =>
    have hv := monoValue_sim ((concStore_iff_rel (fun _ => 0) _).mp hc) m hm hm
    simp only [bind, Except.bind]
    rw [hv, polyE_const]
    simp [okv, MPoly.eval_const]

/-- **V3, moments.**  Under the hypotheses of `checkSameStep_sound`, every monomial over the observed variables has
    the same expectation at every `n` in both programs (whenever both are defined). -/
theorem checkSameStep_moments {cap : Nat} {Γ : TypeEnv} {V : List String} {P P' : Program}
    (h : checkSameStep cap Γ V P P' = .ok true) (n : Nat) {σ₀ σ₀' : Store}
    (hc : ConcStore σ₀) (hc' : ConcStore σ₀')
    (hd : DefAll (symVarsI (obsVars Γ V) P) σ₀) (hd' : DefAll (symVarsI (obsVars Γ V) P') σ₀')
    (hV : ∀ x ∈ V, σ₀.get? x = σ₀'.get? x) (m : Mono) (hm : ∀ xe ∈ m, xe.1 ∈ obsVars Γ V) {a b : Rat}
    (ha : momentU P m n σ₀ = .ok a) (hb : momentU P' m n σ₀' = .ok b) : a = b := by
  simp only [momentU] at ha hb
  obtain ⟨E, hE, ha⟩ := bind_ok.mp ha
  obtain ⟨E', hE', hb⟩ := bind_ok.mp hb
  obtain ⟨hlaw, hi, hi'⟩ := checkSameStep_sound h n hc hc' hd hd' hV hE hE'
  rw [E_eq_wsumM] at ha hb
  rw [wsumM_eq_wsum ha, wsumM_eq_wsum hb]
  classical
  let f : List (Option MPoly) → Rat := fun t =>
    if hex : ∃ q : Path, projC (obsVars Γ V) q = t then mvVal hex.choose.vals m else 0
  have hf : ∀ q : Path, f (projC (obsVars Γ V) q) = mvVal q.vals m := by
    intro q
    have hex : ∃ q' : Path, projC (obsVars Γ V) q' = projC (obsVars Γ V) q := ⟨q, rfl⟩
    simp only [f, dif_pos hex]
    unfold mvVal
    rw [monoValue_congr (fun xe hxe => projC_get hex.choose_spec (hm xe hxe))]
  rw [wsum_congr (g' := fun q => f (projC (obsVars Γ V) q))
        (fun wq hwq hne => by rw [hf]; exact pathE_mvVal (hi wq hwq hne).1 m),
      wsum_congr (D := E') (g' := fun q => f (projC (obsVars Γ V) q))
        (fun wq hwq hne => by rw [hf]; exact pathE_mvVal (hi' wq hwq hne).1 m)]
  exact hlaw f

/-! ### non-vacuity -/

/-- `f = 0; x = 0; while true: f = Bernoulli(1/2); if f == 0: x = x+1 {1/3} x-2 else: x = x+f; x = 2*x end` -/
def eSrc : Program :=
  { init := [.assign "f" (.expr (.num 0)) .tt "f", .assign "x" (.expr (.num 0)) .tt "x"],
    guard := .tt,
    body := [.assign "f" (.dist "Bernoulli" [.num (1/2)]) .tt "f",
             .ite (.cmp .eq (.var "f") (.num 0))
               [.assign "x" (.choice [(.add (.var "x") (.num 1), .num (1/3)),
                                      (.sub (.var "x") (.num 2), .num (2/3))]) .tt "x"]
               [.assign "x" (.expr (.add (.var "x") (.var "f"))) .tt "x",
                .assign "x" (.expr (.mul (.num 2) (.var "x"))) .tt "x"]] }

def eG : Cond := .cmp .eq (.var "f") (.num 0)

/-- the program after IfTransformer and MultiAssignTransformer (as Polar produces it) -/
def eFlat : Program :=
  { eSrc with body :=
     [.assign "f" (.dist "Bernoulli" [.num (1/2)]) .tt "f",
      .assign "_x1" (.choice [(.add (.var "x") (.num 1), .num (1/3)),
                              (.sub (.var "x") (.num 2), .num (2/3))]) eG "x",
      .assign "_x2" (.expr (.add (.var "_x1") (.var "f"))) (.not eG) "_x1",
      .assign "x" (.expr (.mul (.num 2) (.var "_x2"))) (.not eG) "_x2"] }

/-- a broken flattening: the last assignment reads `_x1` instead of `_x2` -/
def eBad : Program :=
  { eSrc with body :=
     [.assign "f" (.dist "Bernoulli" [.num (1/2)]) .tt "f",
      .assign "_x1" (.choice [(.add (.var "x") (.num 1), .num (1/3)),
                              (.sub (.var "x") (.num 2), .num (2/3))]) eG "x",
      .assign "_x2" (.expr (.add (.var "_x1") (.var "f"))) (.not eG) "_x1",
      .assign "x" (.expr (.mul (.num 2) (.var "_x1"))) (.not eG) "_x2"] }

/-- a flattening that carries information across iterations in an auxiliary (reads `_x2` before it is set) -/
def eLeak : Program :=
  { eSrc with body :=
     [.assign "f" (.dist "Bernoulli" [.num (1/2)]) .tt "f",
      .assign "x" (.expr (.add (.var "x") (.var "_x2"))) .tt "x",
      .assign "_x2" (.expr (.var "f")) .tt "_x2"] }

def eΓ : TypeEnv := [("f", [0, 1])]
def eV : List String := ["f", "x"]

example : checkSameStep 4096 eΓ eV eSrc eFlat = .ok true := by decide +kernel
example : checkSameStep 4096 eΓ eV eSrc eBad = .ok false := by decide +kernel
example : checkSameStep 4096 eΓ eV eSrc eLeak = .ok false := by decide +kernel
example : checkSameStep 4096 [("f", [0])] eV eSrc eFlat = .ok false := by decide +kernel
example : (checkSameStep 1 eΓ eV eSrc eFlat).isOk = false := by decide +kernel

/-- the two programs have the same moments of every monomial over `f`, `x` at every n, from all initial stores that
    agree on `f`, `x` -/
example (n : Nat) (σ₀ σ₀' : Store) (hc : ConcStore σ₀) (hc' : ConcStore σ₀')
    (hd : DefAll (symVarsI (obsVars eΓ eV) eSrc) σ₀) (hd' : DefAll (symVarsI (obsVars eΓ eV) eFlat) σ₀')
    (hV : ∀ x ∈ eV, σ₀.get? x = σ₀'.get? x) (m : Mono) (hm : ∀ xe ∈ m, xe.1 ∈ obsVars eΓ eV) (a b : Rat)
    (ha : momentU eSrc m n σ₀ = .ok a) (hb : momentU eFlat m n σ₀' = .ok b) : a = b :=
  checkSameStep_moments (cap := 4096) (by decide +kernel) n hc hc' hd hd' hV m hm ha hb

-- the remaining hypotheses are satisfiable: stores that define the names of the programs and agree on f, x
def eσ : Store := Store.set (Store.set [] "f" (MPoly.const 0)) "x" (MPoly.const 3)
def eσ' : Store :=
  Store.set (Store.set (Store.set (Store.set [] "f" (MPoly.const 0)) "x" (MPoly.const 3)) "_x1" (MPoly.const 7))
    "_x2" (MPoly.const (-5))

example : ConcStore eσ ∧ ConcStore eσ' :=
  ⟨(concStore_nil.set "f" 0).set "x" 3, (((concStore_nil.set "f" 0).set "x" 3).set "_x1" 7).set "_x2" (-5)⟩
example : (symVarsI (obsVars eΓ eV) eSrc).all (fun x => (eσ.get? x).isSome) = true := by decide +kernel
example : (symVarsI (obsVars eΓ eV) eFlat).all (fun x => (eσ'.get? x).isSome) = true := by decide +kernel
example : eV.all (fun x => eσ.get? x == eσ'.get? x) = true := by decide +kernel
-- both moments are defined and equal: E(x²)(2)
example : momentU eSrc [("x", 2)] 2 eσ = momentU eFlat [("x", 2)] 2 eσ' ∧ (momentU eSrc [("x", 2)] 2 eσ).isOk = true := by
  decide +kernel

end Polar.VP
