import Polar.LinAlg
import PolarProofs.CFiniteExt
import Mathlib.Algebra.QuadraticAlgebra.Defs
import Mathlib.Analysis.Real.Sqrt

/-!
# Bridge between the executable list model `Polar/LinAlg.lean` and Mathlib, and soundness of the
executable C-finite window check.

* `toMatrix d A`, `toVec d v` read a list matrix / vector as Mathlib objects via `List.getD`.
* `toVec_matPowVec` : for a `d×d` list matrix, `matPowVec` is `A^n *ᵥ v`.
* `expPolyEval_eq_termSum` : `expPolyEval` is the `CFin.termSum` of the grouped Mathlib shape whose
  size is the executable `shapeSizeOf (shapeOf terms)`.
* `cfiniteCheck_sound` / `cfiniteCheck_complete` : **soundness of the executable check**, stated
  entirely in terms of the executable functions.
* `cfiniteCheckValues_sound` : the variant with externally supplied values, over any commutative
  ℚ-algebra `L` in which the closed form lives.
* `cfiniteCheckQD_sound` (pair arithmetic in ℚ[√D] = ℚ[x]/(x²−D), any rational `D`) and
  `cfiniteCheckQD_sound_real` (the same read in ℝ with the real `√D`, `D ≥ 0`).
-/

open Polynomial Matrix CFin

namespace Polar.LinAlg

/-! ### lists → Mathlib -/

/-- the `d×d` matrix read off a list of rows (missing entries are `0`) -/
def toMatrix (d : ℕ) (A : Mat) : Matrix (Fin d) (Fin d) ℚ :=
  Matrix.of fun i j => (A.getD i.val []).getD j.val 0

/-- the vector of length `d` read off a list (missing entries are `0`) -/
def toVec (d : ℕ) (v : Vec) : Fin d → ℚ := fun i => v.getD i.val 0

/-- `A` is a list of `d` rows of length `d` -/
def Square (d : ℕ) (A : Mat) : Prop := A.length = d ∧ ∀ r ∈ A, r.length = d

lemma rsum_eq_sum (l : List ℚ) : rsum l = l.sum := by
  induction l with
  | nil => rfl
  | cons a l ih => simp [rsum, ih]

lemma nsum_eq_sum (l : List ℕ) : nsum l = l.sum := by
  induction l with
  | nil => rfl
  | cons a l ih => simp [nsum, ih]

lemma dot_eq_sum_range : ∀ (r w : List ℚ) (d : ℕ), r.length ≤ d →
    dot r w = ∑ j ∈ Finset.range d, r.getD j 0 * w.getD j 0
  | [], w, d, _ => by
    cases w <;> simp [dot]
  | a :: as, [], d, _ => by simp [dot]
  | a :: as, b :: bs, 0, h => by simp at h
  | a :: as, b :: bs, d + 1, h => by
    have ih := dot_eq_sum_range as bs d (by simpa using h)
    rw [Finset.sum_range_succ', dot, ih]
    simp [add_comm]

lemma dot_eq_sum_fin (r w : List ℚ) (d : ℕ) (h : r.length ≤ d) :
    dot r w = ∑ j : Fin d, r.getD j.val 0 * w.getD j.val 0 := by
  rw [dot_eq_sum_range r w d h, Finset.sum_range]

lemma length_matVec (A : Mat) (w : Vec) : (matVec A w).length = A.length := by simp [matVec]

lemma toVec_matVec {d : ℕ} {A : Mat} (hA : Square d A) (w : Vec) :
    toVec d (matVec A w) = toMatrix d A *ᵥ toVec d w := by
  funext i
  have hi : i.val < A.length := by rw [hA.1]; exact i.isLt
  have hrow : (A.getD i.val []) = A[i.val] := by simp [List.getD_eq_getElem?_getD, hi]
  have hlen : (A[i.val]).length ≤ d := le_of_eq (hA.2 _ (List.getElem_mem hi))
  have h1 : (matVec A w).getD i.val 0 = dot A[i.val] w := by
    simp [matVec, List.getD_eq_getElem?_getD, hi]
  simp only [toVec, Matrix.mulVec, dotProduct, toMatrix, Matrix.of_apply]
  rw [h1, hrow, dot_eq_sum_fin _ _ d hlen]

/-- **`matPowVec` on lists is Mathlib's `A ^ n *ᵥ v`** for square input. -/
theorem toVec_matPowVec {d : ℕ} {A : Mat} (hA : Square d A) (v : Vec) (n : ℕ) :
    toVec d (matPowVec A v n) = toMatrix d A ^ n *ᵥ toVec d v := by
  induction n with
  | zero => simp [matPowVec]
  | succ n ih =>
    rw [matPowVec, toVec_matVec hA, ih, Matrix.mulVec_mulVec, ← pow_succ']

theorem matPowVec_getD {d : ℕ} {A : Mat} (hA : Square d A) (v : Vec) (n : ℕ) (i : Fin d) :
    (matPowVec A v n).getD i.val 0 = (toMatrix d A ^ n *ᵥ toVec d v) i := by
  rw [← toVec_matPowVec hA]; rfl

lemma length_matPowVec (A : Mat) (v : Vec) (h : v.length = A.length) (n : ℕ) :
    (matPowVec A v n).length = A.length := by
  cases n with
  | zero => exact h
  | succ n => exact length_matVec _ _

lemma matPowVec_succ' (A : Mat) (v : Vec) (n : ℕ) :
    matPowVec A (matVec A v) n = matPowVec A v (n + 1) := by
  induction n with
  | zero => rfl
  | succ n ih => rw [matPowVec, ih]; rfl

lemma matPowVec_add (A : Mat) (v : Vec) (m n : ℕ) :
    matPowVec A (matPowVec A v m) n = matPowVec A v (m + n) := by
  induction n with
  | zero => rfl
  | succ n ih => rw [matPowVec, ih]; rfl

/-- `seqUpTo` lists exactly the iterates `A^n v`, `n = 0..N` -/
theorem seqUpTo_eq (A : Mat) (v : Vec) (N : ℕ) :
    seqUpTo A v N = (List.range (N + 1)).map (matPowVec A v) := by
  induction N generalizing v with
  | zero => rfl
  | succ N ih =>
    rw [seqUpTo, ih, List.range_succ_eq_map (n := N + 1), List.map_cons, List.map_map]
    congr 1
    apply List.map_congr_left
    intro n _
    exact matPowVec_succ' A v n

/-! ### `matMul`, `identity`, `matPow` -/

lemma ncols_eq {d : ℕ} {B : Mat} (hB : Square d B) (hd : 0 < d) : ncols B = d := by
  cases B with
  | nil => have := hB.1; simp at this; omega
  | cons r B => exact hB.2 r (List.mem_cons_self ..)

lemma square_matMul {d : ℕ} {A B : Mat} (hA : Square d A) (hB : Square d B) :
    Square d (matMul A B) := by
  refine ⟨by simp [matMul, hA.1], ?_⟩
  intro r hr
  simp only [matMul, List.mem_map] at hr
  obtain ⟨row, hrow, rfl⟩ := hr
  have hd : 0 < d := by
    have := List.length_pos_of_mem hrow
    rw [hA.1] at this; exact this
  simp [ncols_eq hB hd]

theorem toMatrix_matMul {d : ℕ} {A B : Mat} (hA : Square d A) (hB : Square d B) :
    toMatrix d (matMul A B) = toMatrix d A * toMatrix d B := by
  ext i j
  have hi : i.val < A.length := by rw [hA.1]; exact i.isLt
  have hd : 0 < d := Nat.lt_of_le_of_lt (Nat.zero_le _) i.isLt
  have hlen : (A[i.val]).length ≤ d := le_of_eq (hA.2 _ (List.getElem_mem hi))
  have hrow : (A.getD i.val []) = A[i.val] := by simp [List.getD_eq_getElem?_getD, hi]
  have hcol : ∀ k : Fin d, (col B j.val).getD k.val 0 = (B.getD k.val []).getD j.val 0 := by
    intro k
    have hk : k.val < B.length := by rw [hB.1]; exact k.isLt
    simp [col, List.getD_eq_getElem?_getD, hk]
  have h1 : ((matMul A B).getD i.val []).getD j.val 0 = dot A[i.val] (col B j.val) := by
    simp [matMul, List.getD_eq_getElem?_getD, hi, ncols_eq hB hd]
  simp only [toMatrix, Matrix.of_apply, Matrix.mul_apply]
  rw [h1, hrow, dot_eq_sum_fin _ _ d hlen]
  exact Finset.sum_congr rfl (fun k _ => by rw [hcol k])

lemma square_identity (d : ℕ) : Square d (identity d) := by
  refine ⟨by simp [identity], ?_⟩
  intro r hr
  simp only [identity, List.mem_map] at hr
  obtain ⟨i, _, rfl⟩ := hr
  simp

theorem toMatrix_identity (d : ℕ) : toMatrix d (identity d) = 1 := by
  ext i j
  simp [toMatrix, identity, List.getD_eq_getElem?_getD, Matrix.one_apply, Fin.ext_iff]

lemma square_matPow {d : ℕ} {A : Mat} (hA : Square d A) (n : ℕ) : Square d (matPow A n) := by
  induction n with
  | zero => rw [matPow, hA.1]; exact square_identity d
  | succ n ih => exact square_matMul hA ih

theorem toMatrix_matPow {d : ℕ} {A : Mat} (hA : Square d A) (n : ℕ) :
    toMatrix d (matPow A n) = toMatrix d A ^ n := by
  induction n with
  | zero => rw [matPow, hA.1, toMatrix_identity, pow_zero]
  | succ n ih => rw [matPow, toMatrix_matMul hA (square_matPow hA n), ih, pow_succ']

/-- `matPowVec` agrees with multiplying by the list power `matPow` -/
theorem toVec_matVec_matPow {d : ℕ} {A : Mat} (hA : Square d A) (v : Vec) (n : ℕ) :
    toVec d (matVec (matPow A n) v) = toVec d (matPowVec A v n) := by
  rw [toVec_matVec (square_matPow hA n), toMatrix_matPow hA, toVec_matPowVec hA]

lemma wellFormed_iff (A : Mat) (v : Vec) :
    wellFormed A v = true ↔ v.length = A.length ∧ Square A.length A := by
  simp [wellFormed, Square, List.all_eq_true]

/-! ### the window walk -/

lemma checkFrom_none (A : Mat) (i : ℕ) (ok : ℕ → ℚ → Bool) :
    ∀ (k n : ℕ) (w : Vec), checkFrom A i ok w n k = none →
      ∀ j, j < k → ok (n + j) ((matPowVec A w j).getD i 0) = true
  | 0, _, _, _, j, hj => by omega
  | k + 1, n, w, h, j, hj => by
    rw [checkFrom] at h
    split at h
    · rename_i hok
      cases j with
      | zero => simpa [matPowVec] using hok
      | succ j =>
        have := checkFrom_none A i ok k (n + 1) (matVec A w) h j (by omega)
        rw [matPowVec_succ'] at this
        rw [← this]; congr 1; omega
    · cases h

lemma checkFrom_some (A : Mat) (i : ℕ) (ok : ℕ → ℚ → Bool) :
    ∀ (k n : ℕ) (w : Vec) (m : ℕ) (x : ℚ), checkFrom A i ok w n k = some (m, x) →
      ∃ j, j < k ∧ m = n + j ∧ x = (matPowVec A w j).getD i 0 ∧ ok m x = false
  | 0, _, _, _, _, h => by simp [checkFrom] at h
  | k + 1, n, w, m, x, h => by
    rw [checkFrom] at h
    split at h
    · obtain ⟨j, hj, hm, hx, hok⟩ := checkFrom_some A i ok k (n + 1) (matVec A w) m x h
      refine ⟨j + 1, by omega, by omega, ?_, hok⟩
      rw [hx, matPowVec_succ']
    · rename_i hok
      simp only [Option.some.injEq, Prod.mk.injEq] at h
      obtain ⟨rfl, rfl⟩ := h
      exact ⟨0, by omega, rfl, rfl, by simpa using hok⟩

lemma checkWindow_none {A : Mat} {v : Vec} {i n₀ W : ℕ} {ok : ℕ → ℚ → Bool}
    (h : checkWindow A v i n₀ W ok = none) :
    ∀ j, j < W → ok (n₀ + j) ((matPowVec A v (n₀ + j)).getD i 0) = true := by
  intro j hj
  have := checkFrom_none A i ok W n₀ _ h j hj
  rwa [matPowVec_add] at this

lemma checkWindow_some {A : Mat} {v : Vec} {i n₀ W : ℕ} {ok : ℕ → ℚ → Bool} {m : ℕ} {x : ℚ}
    (h : checkWindow A v i n₀ W ok = some (m, x)) :
    n₀ ≤ m ∧ m < n₀ + W ∧ x = (matPowVec A v m).getD i 0 ∧ ok m x = false := by
  obtain ⟨j, hj, hm, hx, hok⟩ := checkFrom_some A i ok W n₀ _ m x h
  rw [matPowVec_add] at hx
  subst hm
  exact ⟨by omega, by omega, hx, hok⟩

lemma checkShape_ok {A : Mat} {v : Vec} {i : ℕ} (h : checkShape A v i = .ok ()) :
    v.length = A.length ∧ Square A.length A ∧ i < A.length := by
  unfold checkShape at h
  split at h
  · cases h
  · rename_i hwf
    split at h
    · cases h
    · rename_i hi
      have := (wellFormed_iff A v).mp (by simpa using hwf)
      exact ⟨this.1, this.2, by omega⟩

/-! ### the generic window theorem over a ℚ-algebra -/

section Generic
variable {L : Type*} [CommRing L] [Algebra ℚ L]

lemma algebraMap_matPowVec {d : ℕ} {A : Mat} (hA : Square d A) (v : Vec) (n : ℕ) (i : Fin d) :
    algebraMap ℚ L ((matPowVec A v n).getD i.val 0) =
      (((toMatrix d A).map (algebraMap ℚ L)) ^ n *ᵥ (algebraMap ℚ L ∘ toVec d v)) i := by
  rw [matPowVec_getD hA]
  have h1 : ((toMatrix d A).map (algebraMap ℚ L)) ^ n = ((toMatrix d A) ^ n).map (algebraMap ℚ L) := by
    rw [← RingHom.mapMatrix_apply, ← RingHom.mapMatrix_apply, map_pow]
  rw [h1, ← RingHom.map_mulVec]

/-- If an exponential polynomial over `L` of well-formed shape `T` agrees with the (list) matrix
sequence on the window `n₀ ≤ n < n₀ + W`, `W ≥ d + Σ a(T)`, it agrees for all `n ≥ n₀`. -/
theorem window_sound {A : Mat} {v : Vec} {i : ℕ} (hA : Square A.length A) (hi : i < A.length)
    (T : Shape L) (hT : T.WF) (n₀ W : ℕ) (hW : A.length + shapeSize T ≤ W)
    (hwin : ∀ k, k < W → termSum T (n₀ + k) = algebraMap ℚ L ((matPowVec A v (n₀ + k)).getD i 0)) :
    ∀ n, n₀ ≤ n → termSum T n = algebraMap ℚ L ((matPowVec A v n).getD i 0) := by
  intro n hn
  have key := cfinite_ext' ((toMatrix A.length A).map (algebraMap ℚ L))
    (algebraMap ℚ L ∘ toVec A.length v) ⟨i, hi⟩ T hT n₀ W hW
    (fun k hk => by rw [hwin k hk]; exact algebraMap_matPowVec hA v (n₀ + k) ⟨i, hi⟩) n hn
  rw [key]; exact (algebraMap_matPowVec hA v n ⟨i, hi⟩).symm

end Generic

/-! ### grouping terms by base on the Mathlib side -/

section Group
variable {K : Type*} [CommRing K] [DecidableEq K]

/-- add the term `(q, ρ, a)` to a shape, merging with an existing entry of the same base -/
noncomputable def insertT (t : K[X] × K × ℕ) : Shape K → Shape K
  | [] => [t]
  | s :: T => if s.2.1 = t.2.1 then (t.1 + s.1, s.2.1, max t.2.2 s.2.2) :: T else s :: insertT t T

lemma termSum_insertT (t : K[X] × K × ℕ) (T : Shape K) (n : ℕ) :
    termSum (insertT t T) n = expSeq t.1 t.2.1 n + termSum T n := by
  induction T with
  | nil => simp [insertT]
  | cons s T ih =>
    rw [insertT]
    split
    · rename_i h
      rw [termSum_cons, termSum_cons]
      simp only [expSeq_add, h]
      ring
    · rw [termSum_cons, ih, termSum_cons]; ring

lemma insertT_wf {t : K[X] × K × ℕ} (ht : t.1.degree < (t.2.2 : WithBot ℕ)) {T : Shape K}
    (hT : T.WF) : (insertT t T).WF := by
  induction T with
  | nil =>
    intro s hs
    simp only [insertT, List.mem_singleton] at hs
    subst hs; exact ht
  | cons s T ih =>
    have hs := hT s (List.mem_cons_self ..)
    have hT' : Shape.WF T := fun u hu => hT u (List.mem_cons_of_mem _ hu)
    rw [insertT]
    split
    · intro u hu
      rcases List.mem_cons.mp hu with rfl | hu
      · refine lt_of_le_of_lt (degree_add_le _ _) (max_lt ?_ ?_)
        · exact lt_of_lt_of_le ht (by exact_mod_cast le_max_left _ _)
        · exact lt_of_lt_of_le hs (by exact_mod_cast le_max_right _ _)
      · exact hT' u hu
    · intro u hu
      rcases List.mem_cons.mp hu with rfl | hu
      · exact hs
      · exact ih hT' u hu

/-- the (base, bound) keys of a shape -/
def shapeKeys (T : Shape K) : List (K × ℕ) := T.map (fun s => (s.2.1, s.2.2))

lemma shapeKeys_insertT {β : Type} [DecidableEq β] (φ : β → K) (hφ : Function.Injective φ)
    (q : K[X]) (ρ : β) (a : ℕ) :
    ∀ (L : List (β × ℕ)) (T : Shape K), shapeKeys T = L.map (Prod.map φ id) →
      shapeKeys (insertT (q, φ ρ, a) T) = (insertShape ρ a L).map (Prod.map φ id)
  | [], [], _ => by simp [insertT, insertShape, shapeKeys]
  | [], _ :: _, h => by simp [shapeKeys] at h
  | _ :: _, [], h => by simp [shapeKeys] at h
  | (σ, b) :: L, s :: T, h => by
    simp only [shapeKeys, List.map_cons, List.cons.injEq, Prod.map_apply, id_eq, Prod.mk.injEq] at h
    obtain ⟨⟨h1, h2⟩, h3⟩ := h
    rw [insertT, insertShape]
    by_cases hσ : σ = ρ
    · subst hσ
      simp [shapeKeys, h1, h2, h3]
    · have : ¬ s.2.1 = φ ρ := by rw [h1]; exact fun h => hσ (hφ h)
      simp only [this, if_false, hσ]
      have ih := shapeKeys_insertT φ hφ q ρ a L T h3
      simp only [shapeKeys, List.map_cons, Prod.map_apply, id_eq] at ih ⊢
      rw [ih, h1, h2]

omit [DecidableEq K] in
lemma shapeSize_eq_shapeKeys (T : Shape K) : shapeSize T = nsum ((shapeKeys T).map (fun p => p.2)) := by
  rw [nsum_eq_sum]; simp [shapeSize, shapeKeys, Function.comp_def]

end Group

/-! ### `expPolyEval` as a Mathlib exponential polynomial -/

/-- the polynomial `coef · X^deg` of a term -/
noncomputable def ExpTerm.poly (t : ExpTerm) : ℚ[X] := C t.coef * X ^ t.deg

lemma ExpTerm.eval_eq (t : ExpTerm) (n : ℕ) : t.eval n = expSeq t.poly t.base n := by
  simp [ExpTerm.eval, ExpTerm.poly, expSeq]

lemma ExpTerm.degree_poly_lt (t : ExpTerm) : t.poly.degree < ((t.deg + 1 : ℕ) : WithBot ℕ) :=
  lt_of_le_of_lt (degree_C_mul_X_pow_le _ _) (by exact_mod_cast Nat.lt_succ_self _)

/-- `expPolyEval` is the sum of the Mathlib sequences `expSeq (C c * X^deg) base`. -/
theorem expPolyEval_eq_sum (ts : List ExpTerm) (n : ℕ) :
    expPolyEval ts n = (ts.map (fun t => expSeq t.poly t.base n)).sum := by
  rw [expPolyEval, rsum_eq_sum]
  congr 1
  exact List.map_congr_left (fun t _ => t.eval_eq n)

/-- the grouped Mathlib shape of a list of terms -/
noncomputable def groupShape (ts : List ExpTerm) : Shape ℚ :=
  ts.foldr (fun t acc => insertT (t.poly, t.base, t.deg + 1) acc) []

theorem expPolyEval_eq_termSum (ts : List ExpTerm) (n : ℕ) :
    expPolyEval ts n = termSum (groupShape ts) n := by
  induction ts with
  | nil => rfl
  | cons t ts ih =>
    rw [groupShape, List.foldr_cons, termSum_insertT, ← groupShape, ← ih]
    simp [expPolyEval, rsum, ExpTerm.eval_eq]

theorem groupShape_wf (ts : List ExpTerm) : (groupShape ts).WF := by
  induction ts with
  | nil => intro t ht; simp [groupShape] at ht
  | cons t ts ih =>
    rw [groupShape, List.foldr_cons]
    exact insertT_wf t.degree_poly_lt ih

theorem shapeKeys_groupShape (ts : List ExpTerm) : shapeKeys (groupShape ts) = shapeOf ts := by
  induction ts with
  | nil => rfl
  | cons t ts ih =>
    rw [groupShape, List.foldr_cons, ← groupShape, shapeOf, List.foldr_cons, ← shapeOf]
    have := shapeKeys_insertT (K := ℚ) id Function.injective_id t.poly t.base (t.deg + 1)
      (shapeOf ts) (groupShape ts) (by simpa using ih)
    simpa using this

theorem shapeSize_groupShape (ts : List ExpTerm) :
    shapeSize (groupShape ts) = shapeSizeOf (shapeOf ts) := by
  rw [shapeSize_eq_shapeKeys, shapeKeys_groupShape, shapeSizeOf]

/-! ### soundness and completeness of the executable check -/

/-- **Soundness of `cfiniteCheck`.**  If the executable check reports no disagreement on its window
then the closed form `expPolyEval terms` equals the component `i` of `A^n v` for **every** `n ≥ n₀`. -/
theorem cfiniteCheck_sound (A : Mat) (v : Vec) (i n₀ : ℕ) (terms : List ExpTerm) (W : ℕ)
    (h : cfiniteCheck A v i n₀ terms = .ok (W, none)) :
    ∀ n, n₀ ≤ n → expPolyEval terms n = (matPowVec A v n).getD i 0 := by
  unfold cfiniteCheck at h
  split at h
  · cases h
  · rename_i hshape
    obtain ⟨_, hA, hi⟩ := checkShape_ok hshape
    simp only [Except.ok.injEq, Prod.mk.injEq, Option.map_eq_none_iff] at h
    obtain ⟨hW, hnone⟩ := h
    subst hW
    have hwin := checkWindow_none hnone
    intro n hn
    have := window_sound (L := ℚ) (v := v) hA hi (groupShape terms) (groupShape_wf terms) n₀ _
      (by rw [shapeSize_groupShape])
      (fun k hk => by
        have := hwin k hk
        rw [← expPolyEval_eq_termSum]
        simpa using this) n hn
    rw [expPolyEval_eq_termSum, this]; rfl

/-- **Completeness of `cfiniteCheck`** (no false alarms): a reported disagreement is a genuine one,
at an index of the window, with the reported values. -/
theorem cfiniteCheck_complete (A : Mat) (v : Vec) (i n₀ : ℕ) (terms : List ExpTerm) (W : ℕ)
    (m : Mismatch ℚ) (h : cfiniteCheck A v i n₀ terms = .ok (W, some m)) :
    n₀ ≤ m.n ∧ m.n < n₀ + W ∧ m.expected = (matPowVec A v m.n).getD i 0 ∧
      m.got = expPolyEval terms m.n ∧ m.got ≠ m.expected := by
  unfold cfiniteCheck at h
  split at h
  · cases h
  · simp only [Except.ok.injEq, Prod.mk.injEq, Option.map_eq_some_iff] at h
    obtain ⟨hW, ⟨p, hp, rfl⟩⟩ := h
    obtain ⟨h1, h2, h3, h4⟩ := checkWindow_some (m := p.1) (x := p.2) hp
    refine ⟨h1, by rw [← hW]; exact h2, h3, rfl, ?_⟩
    simpa using h4

/-- **Soundness of `cfiniteCheckValues`.**  `values[k]` are claimed to be the exact values at
`n₀ + k` of *some* exponential polynomial over a commutative ℚ-algebra `L` (ℝ, ℂ, ℚ(√D), …) whose
shape `T` is well-formed and has `Σ a(T) ≤ Σ degs`.  If the executable check reports no disagreement,
that exponential polynomial equals `(A^n v)_i` for every `n ≥ n₀`. -/
theorem cfiniteCheckValues_sound {L : Type*} [CommRing L] [Algebra ℚ L]
    (A : Mat) (v : Vec) (i n₀ : ℕ) (values : List ℚ) (degs : List ℕ) (W : ℕ)
    (h : cfiniteCheckValues A v i n₀ values degs = .ok (W, none))
    (T : Shape L) (hT : T.WF) (hsize : shapeSize T ≤ nsum degs)
    (hval : ∀ k, k < W → termSum T (n₀ + k) = algebraMap ℚ L (values.getD k 0)) :
    ∀ n, n₀ ≤ n → termSum T n = algebraMap ℚ L ((matPowVec A v n).getD i 0) := by
  unfold cfiniteCheckValues at h
  split at h
  · cases h
  · rename_i hshape
    obtain ⟨_, hA, hi⟩ := checkShape_ok hshape
    dsimp only at h
    split at h
    · cases h
    · simp only [Except.ok.injEq, Prod.mk.injEq, Option.map_eq_none_iff] at h
      obtain ⟨hW, hnone⟩ := h
      subst hW
      have hwin := checkWindow_none hnone
      refine window_sound hA hi T hT n₀ (A.length + nsum degs) (by omega) (fun k hk => ?_)
      have := hwin k hk
      simp only [Nat.add_sub_cancel_left, beq_iff_eq] at this
      rw [hval k hk, this]

/-! ### non-vacuity: the check accepts a true closed form and rejects a false one -/

/-- `x(n+1) = 2x(n) + 1`: `2^n − 1` is accepted with window 4 … -/
example : cfiniteCheck [[2, 1], [0, 1]] [0, 1] 0 0 [⟨1, 0, 2⟩, ⟨-1, 0, 1⟩] = .ok (4, none) := by
  decide +kernel

/-- … hence equals the matrix sequence for all `n` … -/
example : ∀ n, expPolyEval [⟨1, 0, 2⟩, ⟨-1, 0, 1⟩] n = (matPowVec [[2, 1], [0, 1]] [0, 1] n).getD 0 0 :=
  fun n => cfiniteCheck_sound _ _ _ 0 _ 4 (by decide +kernel) n (Nat.zero_le n)

/-- … and `2^n − 1 + [n-th term wrong]` is rejected at the first bad index. -/
example : cfiniteCheck [[2, 1], [0, 1]] [0, 1] 0 0 [⟨1, 0, 2⟩, ⟨-1, 1, 1⟩] =
    .ok (5, some ⟨0, 0, 1⟩) := by
  decide +kernel

/-! ### closed forms with bases in ℚ[√D] (pair arithmetic) -/

section Quadratic
variable (D : ℚ)

/-- a pair `(a, b)` read as `a + b·x` in `ℚ[x]/(x² − D)` -/
def QD.toQA (x : QD) : QuadraticAlgebra ℚ D 0 := ⟨x.1, x.2⟩

lemma QD.toQA_injective : Function.Injective (QD.toQA D) := by
  intro x y h
  have h1 := congrArg QuadraticAlgebra.re h
  have h2 := congrArg QuadraticAlgebra.im h
  exact Prod.ext h1 h2

lemma QD.toQA_add (x y : QD) : QD.toQA D (QD.add x y) = QD.toQA D x + QD.toQA D y := by
  ext <;> simp [QD.toQA, QD.add]

lemma QD.toQA_mul (x y : QD) : QD.toQA D (QD.mul D x y) = QD.toQA D x * QD.toQA D y := by
  ext <;> simp [QD.toQA, QD.mul]

lemma QD.toQA_pow (x : QD) (n : ℕ) : QD.toQA D (QD.pow D x n) = QD.toQA D x ^ n := by
  induction n with
  | zero => rfl
  | succ n ih => rw [QD.pow, QD.toQA_mul, ih, pow_succ']

lemma QD.toQA_ofRat (r : ℚ) : QD.toQA D (QD.ofRat r) = algebraMap ℚ (QuadraticAlgebra ℚ D 0) r := by
  rfl

lemma QD.toQA_sum (l : List QD) : QD.toQA D (QD.sum l) = (l.map (QD.toQA D)).sum := by
  induction l with
  | nil => ext <;> simp [QD.toQA, QD.sum]
  | cons a l ih => rw [QD.sum, QD.toQA_add, ih]; simp

/-- the polynomial `coef · X^deg` of a term, over `ℚ[x]/(x² − D)` -/
noncomputable def ExpTermQD.poly (t : ExpTermQD) : (QuadraticAlgebra ℚ D 0)[X] :=
  C (QD.toQA D t.coef) * X ^ t.deg

lemma ExpTermQD.eval_eq (t : ExpTermQD) (n : ℕ) :
    QD.toQA D (t.eval D n) = expSeq (t.poly D) (QD.toQA D t.base) n := by
  simp only [ExpTermQD.eval, QD.toQA_mul, QD.toQA_pow, QD.toQA_ofRat, map_pow, map_natCast,
    ExpTermQD.poly, expSeq, eval_mul, eval_C, eval_pow, eval_X]

lemma ExpTermQD.degree_poly_lt (t : ExpTermQD) :
    (t.poly D).degree < ((t.deg + 1 : ℕ) : WithBot ℕ) :=
  lt_of_le_of_lt (degree_C_mul_X_pow_le _ _) (by exact_mod_cast Nat.lt_succ_self _)

/-- the grouped Mathlib shape of a list of ℚ[√D]-terms -/
noncomputable def groupShapeQD (ts : List ExpTermQD) : Shape (QuadraticAlgebra ℚ D 0) :=
  ts.foldr (fun t acc => insertT (t.poly D, QD.toQA D t.base, t.deg + 1) acc) []

theorem expPolyEvalQD_eq_termSum (ts : List ExpTermQD) (n : ℕ) :
    QD.toQA D (expPolyEvalQD D ts n) = termSum (groupShapeQD D ts) n := by
  induction ts with
  | nil => ext <;> simp [expPolyEvalQD, QD.sum, QD.toQA, groupShapeQD]
  | cons t ts ih =>
    rw [groupShapeQD, List.foldr_cons, termSum_insertT, ← groupShapeQD, ← ih, ← ExpTermQD.eval_eq,
      ← QD.toQA_add]
    rfl

theorem groupShapeQD_wf (ts : List ExpTermQD) : (groupShapeQD D ts).WF := by
  induction ts with
  | nil => intro t ht; simp [groupShapeQD] at ht
  | cons t ts ih =>
    rw [groupShapeQD, List.foldr_cons]
    exact insertT_wf (t.degree_poly_lt D) ih

theorem shapeKeys_groupShapeQD (ts : List ExpTermQD) :
    shapeKeys (groupShapeQD D ts) = (shapeOfQD ts).map (Prod.map (QD.toQA D) id) := by
  induction ts with
  | nil => rfl
  | cons t ts ih =>
    rw [groupShapeQD, List.foldr_cons, ← groupShapeQD, shapeOfQD, List.foldr_cons, ← shapeOfQD]
    exact shapeKeys_insertT (QD.toQA D) (QD.toQA_injective D) (t.poly D) t.base (t.deg + 1)
      (shapeOfQD ts) (groupShapeQD D ts) ih

theorem shapeSize_groupShapeQD (ts : List ExpTermQD) :
    shapeSize (groupShapeQD D ts) = shapeSizeOf (shapeOfQD ts) := by
  rw [shapeSize_eq_shapeKeys, shapeKeys_groupShapeQD, shapeSizeOf, List.map_map]
  rfl

/-- **Soundness of `cfiniteCheckQD`**, in pair arithmetic: no disagreement on the window implies
`Σ coef·n^deg·base^n = (A^n v)_i + 0·√D` in `ℚ[x]/(x² − D)` for every `n ≥ n₀`. -/
theorem cfiniteCheckQD_sound (A : Mat) (v : Vec) (i n₀ : ℕ) (terms : List ExpTermQD) (W : ℕ)
    (h : cfiniteCheckQD D A v i n₀ terms = .ok (W, none)) :
    ∀ n, n₀ ≤ n → expPolyEvalQD D terms n = QD.ofRat ((matPowVec A v n).getD i 0) := by
  unfold cfiniteCheckQD at h
  split at h
  · cases h
  · rename_i hshape
    obtain ⟨_, hA, hi⟩ := checkShape_ok hshape
    simp only [Except.ok.injEq, Prod.mk.injEq, Option.map_eq_none_iff] at h
    obtain ⟨hW, hnone⟩ := h
    subst hW
    have hwin := checkWindow_none hnone
    intro n hn
    have := window_sound (L := QuadraticAlgebra ℚ D 0) (v := v) hA hi (groupShapeQD D terms)
      (groupShapeQD_wf D terms) n₀ _ (by rw [shapeSize_groupShapeQD])
      (fun k hk => by
        have := hwin k hk
        simp only [beq_iff_eq] at this
        rw [← expPolyEvalQD_eq_termSum, this, QD.toQA_ofRat]) n hn
    apply QD.toQA_injective D
    rw [expPolyEvalQD_eq_termSum, this, QD.toQA_ofRat]

/-- a pair `(a, b)` read as the real number `a + b·√D` -/
noncomputable def QD.toReal (x : QD) : ℝ := (x.1 : ℝ) + (x.2 : ℝ) * Real.sqrt (D : ℝ)

lemma QD.toReal_ofRat (r : ℚ) : QD.toReal D (QD.ofRat r) = (r : ℝ) := by simp [QD.toReal, QD.ofRat]

lemma QD.toReal_add (x y : QD) : QD.toReal D (QD.add x y) = QD.toReal D x + QD.toReal D y := by
  simp only [QD.toReal, QD.add]; push_cast; ring

lemma QD.toReal_mul (hD : 0 ≤ D) (x y : QD) :
    QD.toReal D (QD.mul D x y) = QD.toReal D x * QD.toReal D y := by
  have hs : Real.sqrt (D : ℝ) * Real.sqrt (D : ℝ) = (D : ℝ) :=
    Real.mul_self_sqrt (by exact_mod_cast hD)
  simp only [QD.toReal, QD.mul]; push_cast
  linear_combination (-(x.2 : ℝ) * (y.2 : ℝ)) * hs

lemma QD.toReal_pow (hD : 0 ≤ D) (x : QD) (n : ℕ) :
    QD.toReal D (QD.pow D x n) = QD.toReal D x ^ n := by
  induction n with
  | zero => simp [QD.toReal, QD.pow]
  | succ n ih => rw [QD.pow, QD.toReal_mul D hD, ih, pow_succ']

/-- the pair evaluation, read in ℝ, is the real exponential polynomial `Σ c·n^deg·β^n` with
`c = c₁ + c₂√D`, `β = β₁ + β₂√D` -/
theorem expPolyEvalQD_toReal (hD : 0 ≤ D) (ts : List ExpTermQD) (n : ℕ) :
    QD.toReal D (expPolyEvalQD D ts n) =
      (ts.map (fun t => QD.toReal D t.coef * (n : ℝ) ^ t.deg * QD.toReal D t.base ^ n)).sum := by
  induction ts with
  | nil => simp [expPolyEvalQD, QD.sum, QD.toReal]
  | cons t ts ih =>
    have : expPolyEvalQD D (t :: ts) n = QD.add (t.eval D n) (expPolyEvalQD D ts n) := rfl
    rw [this, QD.toReal_add, ih, List.map_cons, List.sum_cons]
    congr 1
    rw [ExpTermQD.eval, QD.toReal_mul D hD, QD.toReal_mul D hD, QD.toReal_pow D hD, QD.toReal_ofRat]
    push_cast; ring

/-- **Soundness of `cfiniteCheckQD` in ℝ** (`D ≥ 0`, `√D` the real square root): the real closed
form `Σ (c₁+c₂√D)·n^deg·(β₁+β₂√D)^n` equals `(A^n v)_i` for every `n ≥ n₀`. -/
theorem cfiniteCheckQD_sound_real (hD : 0 ≤ D) (A : Mat) (v : Vec) (i n₀ : ℕ)
    (terms : List ExpTermQD) (W : ℕ) (h : cfiniteCheckQD D A v i n₀ terms = .ok (W, none)) :
    ∀ n, n₀ ≤ n →
      (terms.map (fun t => QD.toReal D t.coef * (n : ℝ) ^ t.deg * QD.toReal D t.base ^ n)).sum =
        (((matPowVec A v n).getD i 0 : ℚ) : ℝ) := by
  intro n hn
  rw [← expPolyEvalQD_toReal D hD, cfiniteCheckQD_sound D A v i n₀ terms W h n hn, QD.toReal_ofRat]

end Quadratic

/-! ### the same in an arbitrary commutative ℚ-algebra containing a square root of `D`
(ℂ with `s = √(-D)·I` for `D < 0`, e.g. ℚ(i); a number field; …) -/

section QuadraticAlg
variable {L : Type*} [CommRing L] [Algebra ℚ L] (D : ℚ) (s : L)

/-- a pair `(a, b)` read as `a + b·s` -/
def QD.toAlg (x : QD) : L := algebraMap ℚ L x.1 + algebraMap ℚ L x.2 * s

lemma QD.toAlg_ofRat (r : ℚ) : QD.toAlg s (QD.ofRat r) = algebraMap ℚ L r := by
  simp [QD.toAlg, QD.ofRat]

lemma QD.toAlg_add (x y : QD) : QD.toAlg s (QD.add x y) = QD.toAlg s x + QD.toAlg s y := by
  simp only [QD.toAlg, QD.add, map_add]; ring

lemma QD.toAlg_mul (hs : s * s = algebraMap ℚ L D) (x y : QD) :
    QD.toAlg s (QD.mul D x y) = QD.toAlg s x * QD.toAlg s y := by
  simp only [QD.toAlg, QD.mul, map_add, map_mul]
  linear_combination (-(algebraMap ℚ L x.2 * algebraMap ℚ L y.2)) * hs

lemma QD.toAlg_pow (hs : s * s = algebraMap ℚ L D) (x : QD) (n : ℕ) :
    QD.toAlg s (QD.pow D x n) = QD.toAlg s x ^ n := by
  induction n with
  | zero => simp [QD.toAlg, QD.pow]
  | succ n ih => rw [QD.pow, QD.toAlg_mul D s hs, ih, pow_succ']

theorem expPolyEvalQD_toAlg (hs : s * s = algebraMap ℚ L D) (ts : List ExpTermQD) (n : ℕ) :
    QD.toAlg s (expPolyEvalQD D ts n) =
      (ts.map (fun t => QD.toAlg s t.coef * (n : L) ^ t.deg * QD.toAlg s t.base ^ n)).sum := by
  induction ts with
  | nil => simp [expPolyEvalQD, QD.sum, QD.toAlg]
  | cons t ts ih =>
    have : expPolyEvalQD D (t :: ts) n = QD.add (t.eval D n) (expPolyEvalQD D ts n) := rfl
    rw [this, QD.toAlg_add, ih, List.map_cons, List.sum_cons]
    congr 1
    rw [ExpTermQD.eval, QD.toAlg_mul D s hs, QD.toAlg_mul D s hs, QD.toAlg_pow D s hs,
      QD.toAlg_ofRat, map_pow, map_natCast]

/-- **Soundness of `cfiniteCheckQD` in any commutative ℚ-algebra with `s² = D`.** -/
theorem cfiniteCheckQD_sound_alg (hs : s * s = algebraMap ℚ L D) (A : Mat) (v : Vec) (i n₀ : ℕ)
    (terms : List ExpTermQD) (W : ℕ) (h : cfiniteCheckQD D A v i n₀ terms = .ok (W, none)) :
    ∀ n, n₀ ≤ n →
      (terms.map (fun t => QD.toAlg s t.coef * (n : L) ^ t.deg * QD.toAlg s t.base ^ n)).sum =
        algebraMap ℚ L ((matPowVec A v n).getD i 0) := by
  intro n hn
  rw [← expPolyEvalQD_toAlg D s hs, cfiniteCheckQD_sound D A v i n₀ terms W h n hn, QD.toAlg_ofRat]

end QuadraticAlg

/-- Fibonacci, Binet's formula `F(n) = (φ^n − ψ^n)/√5` with `φ, ψ = (1 ± √5)/2`, `1/√5 = √5/5`:
accepted with window `2 + 2 = 4` by the pair check over ℚ[√5] … -/
example : cfiniteCheckQD 5 [[1, 1], [1, 0]] [1, 0] 1 0
    [⟨(0, 1/5), 0, (1/2, 1/2)⟩, ⟨(0, -1/5), 0, (1/2, -1/2)⟩] = .ok (4, none) := by
  decide +kernel

/-- … hence Binet's formula holds in ℝ for every `n` (`(A^n v)_1 = F(n)` for the Fibonacci matrix). -/
example : ∀ n : ℕ,
    ((0 : ℚ) + (1/5 : ℚ) * Real.sqrt (5 : ℚ)) * (n : ℝ) ^ 0 * (((1/2 : ℚ) : ℝ) + ((1/2 : ℚ) : ℝ) * Real.sqrt (5 : ℚ)) ^ n +
    (((0 : ℚ) + ((-1/5 : ℚ) : ℝ) * Real.sqrt (5 : ℚ)) * (n : ℝ) ^ 0 * (((1/2 : ℚ) : ℝ) + ((-1/2 : ℚ) : ℝ) * Real.sqrt (5 : ℚ)) ^ n + 0) =
    (((matPowVec [[1, 1], [1, 0]] [1, 0] n).getD 1 0 : ℚ) : ℝ) := by
  intro n
  have := cfiniteCheckQD_sound_real 5 (by norm_num) [[1, 1], [1, 0]] [1, 0] 1 0
    [⟨(0, 1/5), 0, (1/2, 1/2)⟩, ⟨(0, -1/5), 0, (1/2, -1/2)⟩] 4 (by decide +kernel) n (Nat.zero_le n)
  simpa [QD.toReal] using this

end Polar.LinAlg
