import Mathlib.Tactic
import Polar.BayesNet

/-! C15 helpers: mixed-radix enumeration (`combos`, `rowIndex`), sums over `List.range`. -/

namespace Polar.BN

/-! ### `combos` = all valid combinations, each once, at position `rowIndex` -/

@[simp] lemma numRows_nil : numRows [] = 1 := rfl
@[simp] lemma numRows_cons (d : ℕ) (ds : List ℕ) : numRows (d :: ds) = d * numRows ds := rfl

@[simp] lemma combos_nil : combos [] = [[]] := rfl
lemma combos_cons (d : ℕ) (ds : List ℕ) :
    combos (d :: ds) = (List.range d).flatMap (fun x => (combos ds).map (fun c => x :: c)) := rfl

lemma validComb_cons {d x : ℕ} {ds xs : List ℕ} :
    validComb (d :: ds) (x :: xs) = true ↔ x < d ∧ validComb ds xs = true := by
  simp [validComb]

lemma validComb_length {pd c : List ℕ} (h : validComb pd c = true) : c.length = pd.length := by
  induction pd generalizing c with
  | nil => cases c <;> simp_all [validComb]
  | cons d ds ih =>
    cases c with
    | nil => simp [validComb] at h
    | cons x xs => simp [validComb_cons] at h; simp [ih h.2]

lemma mem_combos_iff {pd c : List ℕ} : c ∈ combos pd ↔ validComb pd c = true := by
  induction pd generalizing c with
  | nil => cases c <;> simp [validComb]
  | cons d ds ih =>
    cases c with
    | nil => simp [combos_cons, validComb]
    | cons x xs =>
      simp only [combos_cons, List.mem_flatMap, List.mem_range, List.mem_map, validComb_cons]
      constructor
      · rintro ⟨a, ha, c', hc', heq⟩
        injection heq with h1 h2
        subst h1 h2
        exact ⟨ha, ih.mp hc'⟩
      · rintro ⟨hx, hv⟩
        exact ⟨x, hx, xs, ih.mpr hv, rfl⟩

lemma length_combos (pd : List ℕ) : (combos pd).length = numRows pd := by
  induction pd with
  | nil => rfl
  | cons d ds ih =>
    rw [combos_cons, List.length_flatMap]
    simp [ih]

lemma rowIndex_lt {pd c : List ℕ} (h : validComb pd c = true) : rowIndex pd c < numRows pd := by
  induction pd generalizing c with
  | nil => cases c <;> simp_all [validComb, rowIndex]
  | cons d ds ih =>
    cases c with
    | nil => simp [validComb] at h
    | cons x xs =>
      rw [validComb_cons] at h
      have h2 := ih h.2
      simp only [rowIndex, numRows_cons]
      calc x * numRows ds + rowIndex ds xs < x * numRows ds + numRows ds := by omega
        _ = (x + 1) * numRows ds := by ring
        _ ≤ d * numRows ds := Nat.mul_le_mul_right _ h.1

/-- element `r + i * m` of a concatenation of `d` blocks of equal length `m` -/
lemma getElem?_flatMap_range {α : Type} (f : ℕ → List α) (m d : ℕ) (hlen : ∀ i, i < d → (f i).length = m)
    (i r : ℕ) (hi : i < d) (hr : r < m) :
    ((List.range d).flatMap f)[r + i * m]? = (f i)[r]? := by
  induction d generalizing i with
  | zero => omega
  | succ d ih =>
    rw [List.range_succ, List.flatMap_append]
    have hl : ((List.range d).flatMap f).length = d * m := by
      rw [List.length_flatMap]
      have : ∀ x ∈ List.range d, (f x).length = m := fun x hx => hlen x (by
        have := List.mem_range.mp hx; omega)
      rw [List.map_congr_left this]
      simp
    by_cases hid : i < d
    · rw [List.getElem?_append_left]
      · exact ih (fun j hj => hlen j (by omega)) i hid
      · rw [hl]
        calc r + i * m < m + i * m := by omega
          _ = (i + 1) * m := by ring
          _ ≤ d * m := Nat.mul_le_mul_right _ hid
    · have : i = d := by omega
      subst this
      rw [List.getElem?_append_right (by rw [hl]; omega), hl]
      simp

lemma combos_getElem?_rowIndex {pd c : List ℕ} (h : validComb pd c = true) :
    (combos pd)[rowIndex pd c]? = some c := by
  induction pd generalizing c with
  | nil => cases c <;> simp_all [validComb, rowIndex]
  | cons d ds ih =>
    cases c with
    | nil => simp [validComb] at h
    | cons x xs =>
      rw [validComb_cons] at h
      have hr := rowIndex_lt h.2
      have := getElem?_flatMap_range (fun x => (combos ds).map (fun c => x :: c)) (numRows ds) d
        (fun i _ => by simp [length_combos]) x (rowIndex ds xs) h.1 hr
      simp only [rowIndex, combos_cons]
      rw [Nat.add_comm, this, List.getElem?_map, ih h.2]
      rfl

lemma nodup_combos (pd : List ℕ) : (combos pd).Nodup := by
  induction pd with
  | nil => simp
  | cons d ds ih =>
    rw [combos_cons, List.nodup_flatMap]
    refine ⟨fun x _ => ?_, ?_⟩
    · exact ih.map (fun a b hab => by injection hab)
    · refine List.Pairwise.imp_of_mem ?_ (List.nodup_range (n := d))
      intro a b _ _ hab
      simp only [Function.onFun, List.disjoint_left, List.mem_map]
      rintro c ⟨c1, _, rfl⟩ ⟨c2, _, h2⟩
      injection h2 with h3 _
      exact hab h3.symm

lemma idxOf_combos {pd c : List ℕ} (h : validComb pd c = true) : (combos pd).idxOf c = rowIndex pd c := by
  have hlt : rowIndex pd c < (combos pd).length := by rw [length_combos]; exact rowIndex_lt h
  have hget : (combos pd)[rowIndex pd c] = c := by
    have := combos_getElem?_rowIndex h
    rw [List.getElem?_eq_getElem hlt] at this
    exact Option.some.inj this
  have := (nodup_combos pd).idxOf_getElem (rowIndex pd c) hlt
  rw [hget] at this
  exact this

/-- `rowIndex` is injective on valid combinations -/
lemma rowIndex_inj {pd c c' : List ℕ} (h : validComb pd c = true) (h' : validComb pd c' = true)
    (e : rowIndex pd c = rowIndex pd c') : c = c' := by
  have h1 := combos_getElem?_rowIndex h
  have h2 := combos_getElem?_rowIndex h'
  rw [e] at h1
  exact Option.some.inj (h1.symm.trans h2)

/-- every row number is the index of exactly one valid combination -/
lemma exists_comb_of_lt {pd : List ℕ} {r : ℕ} (hr : r < numRows pd) :
    ∃ c, validComb pd c = true ∧ rowIndex pd c = r := by
  have hlt : r < (combos pd).length := by rw [length_combos]; exact hr
  refine ⟨(combos pd)[r], mem_combos_iff.mp (List.getElem_mem hlt), ?_⟩
  have hv : validComb pd (combos pd)[r] = true := mem_combos_iff.mp (List.getElem_mem hlt)
  have := idxOf_combos hv
  rw [← this]
  exact (nodup_combos pd).idxOf_getElem r hlt

/-! ### sums over `List.range` -/

lemma sum_range_succ' (f : ℕ → ℚ) (n : ℕ) :
    ((List.range (n + 1)).map f).sum = ((List.range n).map f).sum + f n := by
  rw [List.range_succ, List.map_append, List.sum_append]
  simp

/-- a sum whose terms vanish except at one index -/
lemma sum_range_single (f : ℕ → ℚ) (n j : ℕ) (h : ∀ i, i < n → i ≠ j → f i = 0) :
    ((List.range n).map f).sum = if j < n then f j else 0 := by
  induction n with
  | zero => simp
  | succ n ih =>
    rw [sum_range_succ', ih (fun i hi hij => h i (by omega) hij)]
    by_cases hj : j < n
    · have : f n = 0 := h n (by omega) (by omega)
      simp [hj, this, Nat.lt_succ_of_lt hj]
    · by_cases hjn : j = n
      · subst hjn; simp
      · have : f n = 0 := h n (by omega) (by omega)
        have h1 : ¬ j < n + 1 := by omega
        simp [hj, h1, this]

end Polar.BN
