import Mathlib.Tactic
import Polar.Lattice

/-! C16, integer part: vectors as lists, the kernel of one linear form (`kerOne`), the integer
kernel of a matrix (`intKernel`) — soundness, completeness and independence. -/

namespace Polar.Lattice

/-! ### vectors -/

@[simp] lemma length_zeros (n : Nat) : (zeros n).length = n := by simp [zeros]

@[simp] lemma zeros_succ (n : Nat) : zeros (n + 1) = 0 :: zeros n := by
  simp [zeros, List.replicate_succ]

@[simp] lemma zeros_zero : zeros 0 = [] := rfl

@[simp] lemma length_smul (c : Int) (v : List Int) : (smul c v).length = v.length := by
  simp [smul]

@[simp] lemma smul_nil (c : Int) : smul c [] = [] := rfl
@[simp] lemma smul_cons (c a : Int) (v : List Int) : smul c (a :: v) = (c * a) :: smul c v := rfl

@[simp] lemma vadd_cons (a b : Int) (as bs : List Int) :
    vadd (a :: as) (b :: bs) = (a + b) :: vadd as bs := rfl
@[simp] lemma vadd_nil_left (b : List Int) : vadd [] b = [] := by cases b <;> rfl
@[simp] lemma vadd_nil_right (a : List Int) : vadd a [] = [] := by cases a <;> rfl

lemma length_vadd (a b : List Int) (h : a.length = b.length) : (vadd a b).length = a.length := by
  induction a generalizing b with
  | nil => simp
  | cons x xs ih =>
    cases b with
    | nil => simp at h
    | cons y ys => simp at h; simp [ih ys h]

@[simp] lemma dot_cons (a b : Int) (as bs : List Int) : dot (a :: as) (b :: bs) = a * b + dot as bs := rfl
@[simp] lemma dot_nil_left (b : List Int) : dot [] b = 0 := by cases b <;> rfl
@[simp] lemma dot_nil_right (a : List Int) : dot a [] = 0 := by cases a <;> rfl

lemma dot_comm (a b : List Int) : dot a b = dot b a := by
  induction a generalizing b with
  | nil => simp
  | cons x xs ih => cases b with
    | nil => simp
    | cons y ys => simp [ih ys, mul_comm]

@[simp] lemma dot_zeros_right (a : List Int) (n : Nat) : dot a (zeros n) = 0 := by
  induction a generalizing n with
  | nil => simp
  | cons x xs ih => cases n with
    | zero => simp
    | succ n => simp [ih]

@[simp] lemma dot_zeros_left (a : List Int) (n : Nat) : dot (zeros n) a = 0 := by
  rw [dot_comm]; simp

lemma dot_vadd_right (r a b : List Int) (h : a.length = b.length) :
    dot r (vadd a b) = dot r a + dot r b := by
  induction r generalizing a b with
  | nil => simp
  | cons x xs ih =>
    cases a with
    | nil => cases b with
      | nil => simp
      | cons y ys => simp at h
    | cons y ys => cases b with
      | nil => simp at h
      | cons w ws =>
        simp at h
        simp [ih ys ws h]; ring

lemma dot_smul_right (r : List Int) (c : Int) (a : List Int) : dot r (smul c a) = c * dot r a := by
  induction r generalizing a with
  | nil => simp
  | cons x xs ih => cases a with
    | nil => simp
    | cons y ys => simp [ih ys]; ring

lemma vadd_zeros_left (v : List Int) : vadd (zeros v.length) v = v := by
  induction v with
  | nil => simp
  | cons x xs ih => simp [ih]

lemma vadd_zeros_right (v : List Int) : vadd v (zeros v.length) = v := by
  induction v with
  | nil => simp
  | cons x xs ih => simp [ih]

lemma smul_zeros (c : Int) (n : Nat) : smul c (zeros n) = zeros n := by
  induction n with
  | zero => simp
  | succ n ih => simp [ih]

lemma zero_smul' (v : List Int) : smul 0 v = zeros v.length := by
  induction v with
  | nil => simp
  | cons x xs ih => simp [ih]

lemma vadd_comm (a b : List Int) : vadd a b = vadd b a := by
  induction a generalizing b with
  | nil => simp
  | cons x xs ih => cases b with
    | nil => simp
    | cons y ys => simp [ih ys, add_comm]

lemma vadd_assoc (a b c : List Int) : vadd (vadd a b) c = vadd a (vadd b c) := by
  induction a generalizing b c with
  | nil => simp
  | cons x xs ih => cases b with
    | nil => simp
    | cons y ys => cases c with
      | nil => simp
      | cons w ws => simp [ih ys ws, add_assoc]

lemma smul_vadd (c : Int) (a b : List Int) : smul c (vadd a b) = vadd (smul c a) (smul c b) := by
  induction a generalizing b with
  | nil => simp
  | cons x xs ih => cases b with
    | nil => simp
    | cons y ys => simp [ih ys, mul_add]

lemma add_smul' (c d : Int) (a : List Int) : smul (c + d) a = vadd (smul c a) (smul d a) := by
  induction a with
  | nil => simp
  | cons x xs ih => simp [ih, add_mul]

lemma smul_smul' (c d : Int) (a : List Int) : smul c (smul d a) = smul (c * d) a := by
  induction a with
  | nil => simp
  | cons x xs ih => simp [ih, mul_assoc]

/-! ### integer combinations -/

@[simp] lemma comb_nil_left (n : Nat) (K : List (List Int)) : comb n [] K = zeros n := by
  cases K <;> rfl
@[simp] lemma comb_nil_right (n : Nat) (z : List Int) : comb n z [] = zeros n := by
  cases z <;> rfl
@[simp] lemma comb_cons (n : Nat) (z : Int) (zs : List Int) (k : List Int) (ks : List (List Int)) :
    comb n (z :: zs) (k :: ks) = vadd (smul z k) (comb n zs ks) := rfl

lemma length_comb (n : Nat) (z : List Int) (K : List (List Int)) (hK : ∀ r ∈ K, r.length = n) :
    (comb n z K).length = n := by
  induction z generalizing K with
  | nil => simp
  | cons x xs ih => cases K with
    | nil => simp
    | cons k ks =>
      have hk : k.length = n := hK k (by simp)
      have := ih ks (fun r hr => hK r (by simp [hr]))
      simp [length_vadd, this, hk]

lemma dot_comb (n : Nat) (r z : List Int) (K : List (List Int)) (hK : ∀ k ∈ K, k.length = n) :
    dot r (comb n z K) = dot z (K.map (dot r)) := by
  induction z generalizing K with
  | nil => simp
  | cons x xs ih => cases K with
    | nil => simp
    | cons k ks =>
      have hk : k.length = n := hK k (by simp)
      have hl := length_comb n xs ks (fun r hr => hK r (by simp [hr]))
      simp only [comb_cons, List.map_cons, dot_cons]
      rw [dot_vadd_right _ _ _ (by simp [hk, hl]), dot_smul_right, ih ks (fun r hr => hK r (by simp [hr]))]

lemma comb_zeros (n m : Nat) (K : List (List Int)) (hK : ∀ k ∈ K, k.length = n) :
    comb n (zeros m) K = zeros n := by
  induction m generalizing K with
  | zero => simp
  | succ m ih => cases K with
    | nil => simp
    | cons k ks =>
      have hk : k.length = n := hK k (by simp)
      simp only [zeros_succ, comb_cons]
      rw [ih ks (fun r hr => hK r (by simp [hr])), zero_smul', hk]
      have := vadd_zeros_left (zeros n)
      simpa using this

lemma comb_vadd (n : Nat) (a b : List Int) (K : List (List Int)) (hK : ∀ k ∈ K, k.length = n)
    (h : a.length = b.length) :
    comb n (vadd a b) K = vadd (comb n a K) (comb n b K) := by
  induction a generalizing b K with
  | nil =>
    cases b with
    | nil => simp; exact (by have := vadd_zeros_left (zeros n); simpa using this.symm)
    | cons y ys => simp at h
  | cons x xs ih => cases b with
    | nil => simp at h
    | cons y ys =>
      simp at h
      cases K with
      | nil => simp; exact (by have := vadd_zeros_left (zeros n); simpa using this.symm)
      | cons k ks =>
        have hks : ∀ r ∈ ks, r.length = n := fun r hr => hK r (by simp [hr])
        simp only [vadd_cons, comb_cons]
        rw [ih ys ks hks h, add_smul']
        -- (a + b) + (c + d) = (a + c) + (b + d)
        rw [vadd_assoc, vadd_assoc]
        congr 1
        rw [← vadd_assoc, ← vadd_assoc, vadd_comm (smul y k)]

lemma comb_smul (n : Nat) (c : Int) (a : List Int) (K : List (List Int)) (hK : ∀ k ∈ K, k.length = n) :
    comb n (smul c a) K = smul c (comb n a K) := by
  induction a generalizing K with
  | nil => simp [smul_zeros]
  | cons x xs ih => cases K with
    | nil => simp [smul_zeros]
    | cons k ks =>
      have hks : ∀ r ∈ ks, r.length = n := fun r hr => hK r (by simp [hr])
      simp only [smul_cons, comb_cons]
      rw [ih ks hks, smul_vadd, smul_smul']

/-- associativity: a combination of combinations -/
lemma comb_comb (n m : Nat) (z : List Int) (K B : List (List Int))
    (hK : ∀ y ∈ K, y.length = m) (hB : ∀ b ∈ B, b.length = n) :
    comb n (comb m z K) B = comb n z (K.map (fun y => comb n y B)) := by
  induction z generalizing K with
  | nil => simp [comb_zeros n m B hB]
  | cons x xs ih => cases K with
    | nil => simp [comb_zeros n m B hB]
    | cons k ks =>
      have hks : ∀ r ∈ ks, r.length = m := fun r hr => hK r (by simp [hr])
      have hk : k.length = m := hK k (by simp)
      simp only [comb_cons, List.map_cons]
      rw [comb_vadd n _ _ B hB (by simp [hk, length_comb m xs ks hks]), comb_smul n _ _ B hB, ih ks hks]

lemma comb_map_cons_zero (n : Nat) (z : List Int) (K : List (List Int)) :
    comb (n + 1) z (K.map (fun y => 0 :: y)) = 0 :: comb n z K := by
  induction z generalizing K with
  | nil => simp
  | cons x xs ih => cases K with
    | nil => simp
    | cons k ks => simp [ih ks]

lemma comb_map_tail (n : Nat) (z : List Int) (K : List (List Int)) (hK : ∀ k ∈ K, k.length = n + 1) :
    comb n z (K.map List.tail) = (comb (n + 1) z K).tail := by
  induction z generalizing K with
  | nil => simp
  | cons x xs ih => cases K with
    | nil => simp
    | cons k ks =>
      have hks : ∀ r ∈ ks, r.length = n + 1 := fun r hr => hK r (by simp [hr])
      have hk : k.length = n + 1 := hK k (by simp)
      have hl := length_comb (n + 1) xs ks hks
      simp only [List.map_cons, comb_cons]
      rw [ih ks hks]
      cases k with
      | nil => simp at hk
      | cons k0 kt =>
        cases hc : comb (n + 1) xs ks with
        | nil => rw [hc] at hl; simp at hl
        | cons c0 ct => simp

lemma comb_identity (n : Nat) (x : List Int) (h : x.length = n) : comb n x (identity n) = x := by
  induction n generalizing x with
  | zero => cases x with
    | nil => simp
    | cons a as => simp at h
  | succ n ih => cases x with
    | nil => simp at h
    | cons a as =>
      simp at h
      simp only [identity, comb_cons]
      rw [comb_map_cons_zero, ih as h]
      simp only [smul_cons, mul_one, smul_zeros, vadd_cons, add_zero]
      rw [← h, vadd_zeros_left]

lemma length_identity (n : Nat) : (identity n).length = n := by
  induction n with
  | zero => rfl
  | succ n ih => simp [identity, ih]

lemma length_identity_rows (n : Nat) : ∀ r ∈ identity n, r.length = n := by
  induction n with
  | zero => simp [identity]
  | succ n ih =>
    intro r hr
    simp only [identity, List.mem_cons, List.mem_map] at hr
    rcases hr with rfl | ⟨y, hy, rfl⟩
    · simp
    · simp [ih y hy]


/-! ### extended gcd -/

lemma xgcdAux_bezout (f : Nat) (a b : Int) :
    (xgcdAux f a b).1 = (xgcdAux f a b).2.1 * a + (xgcdAux f a b).2.2 * b := by
  induction f generalizing a b with
  | zero => simp [xgcdAux]
  | succ f ih =>
    unfold xgcdAux
    split_ifs with hb
    · simp
    · have h := ih b (a % b)
      simp only
      rw [h]
      have : a % b = a - b * (a / b) := by
        have := Int.emod_add_mul_ediv a b
        linarith
      rw [this]; ring

lemma xgcdAux_dvd (f : Nat) (a b : Int) (hf : b.natAbs < f) :
    (xgcdAux f a b).1 ∣ a ∧ (xgcdAux f a b).1 ∣ b := by
  induction f generalizing a b with
  | zero => omega
  | succ f ih =>
    unfold xgcdAux
    split_ifs with hb
    · subst hb; simp
    · have hlt : (a % b).natAbs < f := by
        have h1 : 0 ≤ a % b := Int.emod_nonneg a hb
        have h2 : a % b < |b| := Int.emod_lt_abs a hb
        have : (a % b).natAbs < b.natAbs := by
          zify
          rw [abs_of_nonneg h1]; exact h2
        omega
      obtain ⟨h1, h2⟩ := ih b (a % b) hlt
      simp only
      refine ⟨?_, h1⟩
      have h3 : (xgcdAux f b (a % b)).1 ∣ a % b + b * (a / b) :=
        dvd_add h2 (Dvd.dvd.mul_right h1 _)
      rwa [Int.emod_add_mul_ediv a b] at h3

lemma xgcd_bezout (a b : Int) : (xgcd a b).1 = (xgcd a b).2.1 * a + (xgcd a b).2.2 * b :=
  xgcdAux_bezout _ a b

lemma xgcd_dvd (a b : Int) : (xgcd a b).1 ∣ a ∧ (xgcd a b).1 ∣ b :=
  xgcdAux_dvd _ a b (Nat.lt_succ_self _)

/-! ### bases of submodules of ℤᵏ given by a predicate -/

/-- `B` is a ℤ-basis of `{x ∈ ℤᵏ | P x}`: its rows have length `k` and satisfy `P`; every `x` with
`P x` is an integer combination of the rows; only the zero combination gives the zero vector. -/
structure IsBasisOf (k : Nat) (P : List Int → Prop) (B : List (List Int)) : Prop where
  len : ∀ b ∈ B, b.length = k
  sound : ∀ b ∈ B, P b
  complete : ∀ x : List Int, x.length = k → P x → ∃ z : List Int, z.length = B.length ∧ comb k z B = x
  indep : ∀ z : List Int, z.length = B.length → comb k z B = zeros k → ∀ c ∈ z, c = 0

lemma eq_zeros_of_forall {z : List Int} (h : ∀ c ∈ z, c = 0) : z = zeros z.length := by
  induction z with
  | nil => simp
  | cons a as ih =>
    have ha : a = 0 := h a (by simp)
    have := ih (fun c hc => h c (by simp [hc]))
    simp [ha]; exact this

lemma mem_zeros {n : Nat} {c : Int} (h : c ∈ zeros n) : c = 0 := by
  simp [zeros] at h; exact h.2

/-- composition: a basis of a sublattice described in the coordinates of `B` -/
lemma IsBasisOf.comp {k : Nat} {P Q : List Int → Prop} {B K : List (List Int)}
    (hB : IsBasisOf k P B) (hlin : ∀ z : List Int, z.length = B.length → P (comb k z B))
    (hK : IsBasisOf B.length (fun y => Q (comb k y B)) K) :
    IsBasisOf k (fun x => P x ∧ Q x) (K.map (fun y => comb k y B)) where
  len := by
    intro b hb
    obtain ⟨y, _, rfl⟩ := List.mem_map.1 hb
    exact length_comb k y B hB.len
  sound := by
    intro b hb
    obtain ⟨y, hy, rfl⟩ := List.mem_map.1 hb
    exact ⟨hlin y (hK.len y hy), hK.sound y hy⟩
  complete := by
    intro x hx ⟨hP, hQ⟩
    obtain ⟨y, hyl, hy⟩ := hB.complete x hx hP
    obtain ⟨z, hzl, hz⟩ := hK.complete y hyl (by rw [hy]; exact hQ)
    refine ⟨z, by simpa using hzl, ?_⟩
    rw [← comb_comb k B.length z K B hK.len hB.len, hz, hy]
  indep := by
    intro z hzl hz c hc
    rw [← comb_comb k B.length z K B hK.len hB.len] at hz
    have hl : (comb B.length z K).length = B.length := length_comb _ z K hK.len
    have h0 := hB.indep _ hl hz
    have h1 : comb B.length z K = zeros B.length := by
      have := eq_zeros_of_forall h0
      rw [hl] at this; exact this
    exact hK.indep z (by simpa using hzl) h1 c hc

lemma isBasisOf_identity (k : Nat) : IsBasisOf k (fun _ => True) (identity k) where
  len := length_identity_rows k
  sound := fun _ _ => trivial
  complete := fun x hx _ => ⟨x, by simp [hx, length_identity], comb_identity k x hx⟩
  indep := by
    intro z hz h c hc
    rw [length_identity] at hz
    rw [comb_identity k z hz] at h
    rw [h] at hc; exact mem_zeros hc

lemma IsBasisOf.congr {k : Nat} {P Q : List Int → Prop} {B : List (List Int)}
    (h : IsBasisOf k P B) (hPQ : ∀ x : List Int, x.length = k → (P x ↔ Q x)) : IsBasisOf k Q B where
  len := h.len
  sound := fun b hb => (hPQ b (h.len b hb)).1 (h.sound b hb)
  complete := fun x hx hq => h.complete x hx ((hPQ x hx).2 hq)
  indep := h.indep


/-! ### extending a basis by one leading coordinate -/

lemma comb_cons_cons_map (n : Nat) (w a : Int) (z vt : List Int) (K : List (List Int)) :
    comb (n + 1) (w :: z) ((a :: vt) :: K.map (fun y => 0 :: y))
      = (w * a) :: vadd (smul w vt) (comb n z K) := by
  simp [comb_map_cons_zero]

lemma vadd_smul_cancel (w : Int) (vt ys : List Int) (h : vt.length = ys.length) :
    vadd (smul w vt) (vadd ys (smul (-w) vt)) = ys := by
  induction vt generalizing ys with
  | nil => cases ys with
    | nil => simp
    | cons y ys => simp at h
  | cons v vs ih => cases ys with
    | nil => simp at h
    | cons y ys =>
      simp at h
      simp [ih ys h]

lemma IsBasisOf.map_cons_zero {n : Nat} {P P' : List Int → Prop} {K : List (List Int)}
    (hK : IsBasisOf n P' K)
    (h0 : ∀ y : List Int, y.length = n → (P (0 :: y) ↔ P' y))
    (h1 : ∀ (y1 : Int) (ys : List Int), ys.length = n → P (y1 :: ys) → y1 = 0) :
    IsBasisOf (n + 1) P (K.map (fun y => 0 :: y)) where
  len := by
    intro b hb
    obtain ⟨y, hy, rfl⟩ := List.mem_map.1 hb
    simp [hK.len y hy]
  sound := by
    intro b hb
    obtain ⟨y, hy, rfl⟩ := List.mem_map.1 hb
    exact (h0 y (hK.len y hy)).2 (hK.sound y hy)
  complete := by
    intro x hx hP
    cases x with
    | nil => simp at hx
    | cons y1 ys =>
      simp at hx
      have := h1 y1 ys hx hP
      subst this
      obtain ⟨z, hzl, hz⟩ := hK.complete ys hx ((h0 ys hx).1 hP)
      exact ⟨z, by simpa using hzl, by rw [comb_map_cons_zero, hz]⟩
  indep := by
    intro z hzl hz
    rw [comb_map_cons_zero] at hz
    simp at hz
    exact hK.indep z (by simpa using hzl) hz

lemma IsBasisOf.cons {n : Nat} {P P' : List Int → Prop} {K : List (List Int)} {a : Int} {vt : List Int}
    (hK : IsBasisOf n P' K) (ha : a ≠ 0) (hvt : vt.length = n)
    (hv : P (a :: vt))
    (h0 : ∀ y : List Int, y.length = n → (P (0 :: y) ↔ P' y))
    (h1 : ∀ (y1 : Int) (ys : List Int), ys.length = n → P (y1 :: ys) →
      ∃ w : Int, y1 = w * a ∧ P' (vadd ys (smul (-w) vt))) :
    IsBasisOf (n + 1) P ((a :: vt) :: K.map (fun y => 0 :: y)) where
  len := by
    intro b hb
    rcases List.mem_cons.1 hb with rfl | hb
    · simp [hvt]
    · obtain ⟨y, hy, rfl⟩ := List.mem_map.1 hb
      simp [hK.len y hy]
  sound := by
    intro b hb
    rcases List.mem_cons.1 hb with rfl | hb
    · exact hv
    · obtain ⟨y, hy, rfl⟩ := List.mem_map.1 hb
      exact (h0 y (hK.len y hy)).2 (hK.sound y hy)
  complete := by
    intro x hx hP
    cases x with
    | nil => simp at hx
    | cons y1 ys =>
      simp at hx
      obtain ⟨w, hw, hP'⟩ := h1 y1 ys hx hP
      have hl : (vadd ys (smul (-w) vt)).length = n := by
        rw [length_vadd _ _ (by simp [hx, hvt]), hx]
      obtain ⟨z, hzl, hz⟩ := hK.complete _ hl hP'
      refine ⟨w :: z, by simpa using hzl, ?_⟩
      rw [comb_cons_cons_map, hz, vadd_smul_cancel w vt ys (by rw [hvt, hx]), hw]
  indep := by
    intro z hzl hz
    cases z with
    | nil => simp at hzl
    | cons w zs =>
      simp at hzl
      rw [comb_cons_cons_map] at hz
      simp only [zeros_succ, List.cons.injEq] at hz
      obtain ⟨hw, hrest⟩ := hz
      have hw0 : w = 0 := by
        rcases mul_eq_zero.1 hw with h | h
        · exact h
        · exact absurd h ha
      subst hw0
      have hcl : (comb n zs K).length = n := length_comb n zs K hK.len
      rw [zero_smul', hvt] at hrest
      have : vadd (zeros n) (comb n zs K) = comb n zs K := by
        have := vadd_zeros_left (comb n zs K)
        rwa [hcl] at this
      rw [this] at hrest
      intro c hc
      rcases List.mem_cons.1 hc with rfl | hc
      · rfl
      · exact hK.indep zs hzl hrest c hc

/-! ### the kernel of one linear form -/

lemma dot_eq_zero_of_forall_zero {cs : List Int} (h : ∀ x ∈ cs, x = 0) (y : List Int) : dot cs y = 0 := by
  induction cs generalizing y with
  | nil => simp
  | cons c cs ih => cases y with
    | nil => simp
    | cons y ys =>
      have hc : c = 0 := h c (by simp)
      simp [hc, ih (fun x hx => h x (by simp [hx]))]

lemma dvd_dot {d : Int} {cs : List Int} (h : ∀ x ∈ cs, d ∣ x) (y : List Int) : d ∣ dot cs y := by
  induction cs generalizing y with
  | nil => simp
  | cons c cs ih => cases y with
    | nil => simp
    | cons y ys =>
      simp only [dot_cons]
      exact dvd_add (Dvd.dvd.mul_right (h c (by simp)) _) (ih (fun x hx => h x (by simp [hx])) ys)

structure KerSpec (c : List Int) (r : KerRes) : Prop where
  lenU : r.u.length = c.length
  bez : dot c r.u = r.g
  dvd : ∀ x ∈ c, r.g ∣ x
  basis : IsBasisOf c.length (fun y => dot c y = 0) r.K

lemma kerSpec_nil : KerSpec [] (kerOne []) where
  lenU := rfl
  bez := rfl
  dvd := by simp
  basis :=
    { len := by simp [kerOne]
      sound := by simp [kerOne]
      complete := by
        intro x hx _
        have : x = [] := List.length_eq_zero_iff.1 hx
        subst this
        exact ⟨[], by simp [kerOne], by simp⟩
      indep := by
        intro z hz _ c hc
        have : z = [] := List.length_eq_zero_iff.1 (by simpa [kerOne] using hz)
        subst this
        simp at hc }


lemma kerOne_cons (c : Int) (cs : List Int) :
    kerOne (c :: cs) =
      if (kerOne cs).g = 0 then
        if c = 0 then ⟨(1 :: zeros cs.length) :: (kerOne cs).K.map (fun y => 0 :: y), 0, 0 :: (kerOne cs).u⟩
        else ⟨(kerOne cs).K.map (fun y => 0 :: y), c, 1 :: zeros cs.length⟩
      else
        ⟨(((kerOne cs).g / (xgcd c (kerOne cs).g).1) ::
            smul (-(c / (xgcd c (kerOne cs).g).1)) (kerOne cs).u) :: (kerOne cs).K.map (fun y => 0 :: y),
          (xgcd c (kerOne cs).g).1,
          (xgcd c (kerOne cs).g).2.1 :: smul (xgcd c (kerOne cs).g).2.2 (kerOne cs).u⟩ := rfl

lemma kerSpec_cons_zero_zero {cs : List Int} {r : KerRes} (ih : KerSpec cs r) (hg : r.g = 0) :
    KerSpec (0 :: cs) ⟨(1 :: zeros cs.length) :: r.K.map (fun y => 0 :: y), 0, 0 :: r.u⟩ := by
  have hz : ∀ x ∈ cs, x = 0 := fun x hx => by
    have := ih.dvd x hx
    rw [hg] at this
    exact zero_dvd_iff.1 this
  refine ⟨by simp [ih.lenU], by simp [ih.bez, hg], ?_, ?_⟩
  · intro x hx
    rcases List.mem_cons.1 hx with rfl | hx
    · simp
    · simp [hz x hx]
  · show IsBasisOf (cs.length + 1) _ _
    refine IsBasisOf.cons ih.basis one_ne_zero (length_zeros _) (by simp) (fun y _ => by simp) ?_
    intro y1 ys hys hP
    refine ⟨y1, by simp, ?_⟩
    exact dot_eq_zero_of_forall_zero hz _

lemma kerSpec_cons_zero_ne {c : Int} {cs : List Int} {r : KerRes} (ih : KerSpec cs r) (hg : r.g = 0)
    (hc : c ≠ 0) :
    KerSpec (c :: cs) ⟨r.K.map (fun y => 0 :: y), c, 1 :: zeros cs.length⟩ := by
  have hz : ∀ x ∈ cs, x = 0 := fun x hx => by
    have := ih.dvd x hx
    rw [hg] at this
    exact zero_dvd_iff.1 this
  refine ⟨by simp, by simp, ?_, ?_⟩
  · intro x hx
    rcases List.mem_cons.1 hx with rfl | hx
    · simp
    · simp [hz x hx]
  · show IsBasisOf (cs.length + 1) _ _
    refine IsBasisOf.map_cons_zero ih.basis (fun y _ => by simp) ?_
    intro y1 ys _ hP
    simp only [dot_cons, dot_eq_zero_of_forall_zero hz, add_zero] at hP
    rcases mul_eq_zero.1 hP with h | h
    · exact absurd h hc
    · exact h

lemma kerSpec_cons_ne {c : Int} {cs : List Int} {r : KerRes} (ih : KerSpec cs r) (hg : r.g ≠ 0) :
    KerSpec (c :: cs)
      ⟨((r.g / (xgcd c r.g).1) :: smul (-(c / (xgcd c r.g).1)) r.u) :: r.K.map (fun y => 0 :: y),
        (xgcd c r.g).1, (xgcd c r.g).2.1 :: smul (xgcd c r.g).2.2 r.u⟩ := by
  obtain ⟨⟨c', hc'⟩, ⟨g'', hg''⟩⟩ := xgcd_dvd c r.g
  have hbez := xgcd_bezout c r.g
  set g := (xgcd c r.g).1 with hgdef
  set s := (xgcd c r.g).2.1
  set t := (xgcd c r.g).2.2
  have hg0 : g ≠ 0 := by
    intro h; rw [h] at hg''; simp at hg''; exact hg hg''
  have hg''0 : g'' ≠ 0 := by
    intro h; rw [h] at hg''; simp at hg''; exact hg hg''
  have hcd : c / g = c' := by rw [hc']; exact Int.mul_ediv_cancel_left _ hg0
  have hgd : r.g / g = g'' := by rw [hg'']; exact Int.mul_ediv_cancel_left _ hg0
  have hone : s * c' + t * g'' = 1 := by
    have h : g * (s * c' + t * g'') = g * 1 := by
      rw [mul_one]
      calc g * (s * c' + t * g'') = s * (g * c') + t * (g * g'') := by ring
        _ = s * c + t * r.g := by rw [← hc', ← hg'']
        _ = g := hbez.symm
    exact mul_left_cancel₀ hg0 h
  refine ⟨by simp [ih.lenU], ?_, ?_, ?_⟩
  · show dot (c :: cs) (s :: smul t r.u) = g
    rw [dot_cons, dot_smul_right, ih.bez, hbez]; ring
  · intro x hx
    show g ∣ x
    rcases List.mem_cons.1 hx with rfl | hx
    · exact ⟨c', hc'⟩
    · exact dvd_trans ⟨g'', hg''⟩ (ih.dvd x hx)
  · show IsBasisOf (cs.length + 1) _ ((r.g / g :: smul (-(c / g)) r.u) :: _)
    rw [hcd, hgd]
    refine IsBasisOf.cons ih.basis hg''0 (by simp [ih.lenU]) ?_ (fun y _ => by simp) ?_
    · show dot (c :: cs) (g'' :: smul (-c') r.u) = 0
      rw [dot_cons, dot_smul_right, ih.bez, hc', hg'']; ring
    · intro y1 ys hys hP
      obtain ⟨m, hm⟩ := dvd_dot ih.dvd ys
      simp only [dot_cons] at hP
      -- c' * y1 + g'' * m = 0
      have h1 : c' * y1 + g'' * m = 0 := by
        have h : g * (c' * y1 + g'' * m) = g * 0 := by
          rw [mul_zero]
          calc g * (c' * y1 + g'' * m) = (g * c') * y1 + (g * g'') * m := by ring
            _ = c * y1 + dot cs ys := by rw [← hc', ← hg'', hm]
            _ = 0 := hP
        exact mul_left_cancel₀ hg0 h
      refine ⟨t * y1 - s * m, ?_, ?_⟩
      · -- y1 = (t y1 - s m) g''
        have : y1 = y1 * (s * c' + t * g'') := by rw [hone, mul_one]
        have h2 : g'' * m = -(c' * y1) := by linarith
        calc y1 = y1 * (s * c' + t * g'') := this
          _ = s * (c' * y1) + t * y1 * g'' := by ring
          _ = s * (-(g'' * m)) + t * y1 * g'' := by rw [h2]; ring
          _ = (t * y1 - s * m) * g'' := by ring
      · show dot cs (vadd ys (smul (-(t * y1 - s * m)) (smul (-c') r.u))) = 0
        rw [dot_vadd_right _ _ _ (by simp [hys, ih.lenU]), dot_smul_right, dot_smul_right, ih.bez, hm, hg'']
        have h2 : c' * y1 = -(g'' * m) := by linarith
        have : m = m * (s * c' + t * g'') := by rw [hone, mul_one]
        -- g g'' m + (t y1 - s m) c' g g'' = g g'' (m + t c' y1 - s c' m) = g g'' (m - t g'' m - s c' m) = 0
        calc g * g'' * m + -(t * y1 - s * m) * (-c' * (g * g''))
            = g * g'' * (m + t * (c' * y1) - s * c' * m) := by ring
          _ = g * g'' * (m + t * (-(g'' * m)) - s * c' * m) := by rw [h2]
          _ = g * g'' * (m - m * (s * c' + t * g'')) := by ring
          _ = 0 := by rw [← this]; ring

theorem kerOne_spec (c : List Int) : KerSpec c (kerOne c) := by
  induction c with
  | nil => exact kerSpec_nil
  | cons c cs ih =>
    rw [kerOne_cons]
    split_ifs with hg hc
    · subst hc; exact kerSpec_cons_zero_zero ih hg
    · exact kerSpec_cons_zero_ne ih hg hc
    · exact kerSpec_cons_ne ih hg


/-! ### the integer kernel of a matrix -/

lemma isBasisOf_kerStep {k : Nat} {M₀ : List (List Int)} {B : List (List Int)} (r : List Int)
    (h : IsBasisOf k (fun x => ∀ r' ∈ M₀, dot r' x = 0) B) :
    IsBasisOf k (fun x => ∀ r' ∈ M₀ ++ [r], dot r' x = 0) (kerStep k B r) := by
  have hK := (kerOne_spec (B.map (dot r))).basis
  rw [List.length_map] at hK
  have hK' : IsBasisOf B.length (fun y => dot r (comb k y B) = 0) (kerOne (B.map (dot r))).K := by
    refine hK.congr (fun y _ => ?_)
    rw [dot_comb k r y B h.len, dot_comm]
  have hlin : ∀ z : List Int, z.length = B.length → ∀ r' ∈ M₀, dot r' (comb k z B) = 0 := by
    intro z _ r' hr'
    rw [dot_comb k r' z B h.len, dot_comm]
    apply dot_eq_zero_of_forall_zero
    intro x hx
    obtain ⟨b, hb, rfl⟩ := List.mem_map.1 hx
    exact h.sound b hb r' hr'
  have := IsBasisOf.comp (Q := fun x => dot r x = 0) h hlin hK'
  refine this.congr (fun x _ => ?_)
  constructor
  · rintro ⟨h1, h2⟩ r' hr'
    rcases List.mem_append.1 hr' with h' | h'
    · exact h1 r' h'
    · simp at h'; subst h'; exact h2
  · intro h'
    exact ⟨fun r' hr' => h' r' (List.mem_append_left _ hr'), h' r (by simp)⟩

lemma isBasisOf_foldl_kerStep {k : Nat} (M M₀ : List (List Int)) (B : List (List Int))
    (h : IsBasisOf k (fun x => ∀ r' ∈ M₀, dot r' x = 0) B) :
    IsBasisOf k (fun x => ∀ r' ∈ M₀ ++ M, dot r' x = 0) (M.foldl (kerStep k) B) := by
  induction M generalizing M₀ B with
  | nil => simpa using h
  | cons r M ih =>
    have := ih (M₀ ++ [r]) (kerStep k B r) (isBasisOf_kerStep r h)
    simpa using this

/-- **`intKernel` is a ℤ-basis of the integer kernel**: its rows have length `k` and are annihilated
by every row of `M` (soundness); every integer vector annihilated by all rows of `M` is an integer
combination of them (completeness); they are linearly independent. -/
theorem intKernel_isBasis (k : Nat) (M : List (List Int)) :
    IsBasisOf k (fun x => ∀ r ∈ M, dot r x = 0) (intKernel k M) := by
  have h0 : IsBasisOf k (fun x => ∀ r' ∈ ([] : List (List Int)), dot r' x = 0) (identity k) :=
    (isBasisOf_identity k).congr (fun x _ => by simp)
  have := isBasisOf_foldl_kerStep M [] (identity k) h0
  simpa [intKernel] using this

theorem intKernel_sound (k : Nat) (M : List (List Int)) :
    ∀ x ∈ intKernel k M, x.length = k ∧ ∀ r ∈ M, dot r x = 0 :=
  fun x hx => ⟨(intKernel_isBasis k M).len x hx, (intKernel_isBasis k M).sound x hx⟩

theorem intKernel_complete (k : Nat) (M : List (List Int)) (x : List Int) (hx : x.length = k)
    (h : ∀ r ∈ M, dot r x = 0) :
    ∃ z : List Int, z.length = (intKernel k M).length ∧ comb k z (intKernel k M) = x :=
  (intKernel_isBasis k M).complete x hx h

theorem intKernel_independent (k : Nat) (M : List (List Int)) (z : List Int)
    (hz : z.length = (intKernel k M).length) (h : comb k z (intKernel k M) = zeros k) :
    ∀ c ∈ z, c = 0 :=
  (intKernel_isBasis k M).indep z hz h


/-! ### relations among rows, independence, membership in the integer span -/

lemma getD_zeros (n j : Nat) : (zeros n).getD j 0 = 0 := by
  simp [zeros, List.getD_eq_getElem?_getD, List.getElem?_replicate]
  split_ifs <;> rfl

lemma getD_smul (c : Int) (v : List Int) (j : Nat) : (smul c v).getD j 0 = c * v.getD j 0 := by
  induction v generalizing j with
  | nil => simp
  | cons x xs ih => cases j with
    | zero => simp
    | succ j => simpa using ih j

lemma getD_vadd (a b : List Int) (h : a.length = b.length) (j : Nat) :
    (vadd a b).getD j 0 = a.getD j 0 + b.getD j 0 := by
  induction a generalizing b j with
  | nil => cases b with
    | nil => simp
    | cons y ys => simp at h
  | cons x xs ih => cases b with
    | nil => simp at h
    | cons y ys =>
      simp at h
      cases j with
      | zero => simp
      | succ j => simpa using ih ys h j

lemma getD_comb (k : Nat) (z : List Int) (B : List (List Int)) (hB : ∀ b ∈ B, b.length = k) (j : Nat) :
    (comb k z B).getD j 0 = dot (col B j) z := by
  induction z generalizing B with
  | nil => rw [comb_nil_left, getD_zeros]; simp
  | cons x xs ih => cases B with
    | nil => rw [comb_nil_right, getD_zeros]; simp [col]
    | cons b bs =>
      have hbs : ∀ r ∈ bs, r.length = k := fun r hr => hB r (by simp [hr])
      have hb : b.length = k := hB b (by simp)
      simp only [comb_cons]
      rw [getD_vadd _ _ (by simp [hb, length_comb k xs bs hbs]), getD_smul, ih bs hbs]
      simp [col]; ring

lemma dot_transposeK_of_comb_zero {k : Nat} {B : List (List Int)} (hB : ∀ b ∈ B, b.length = k)
    {z : List Int} (h : comb k z B = zeros k) : ∀ r ∈ transposeK k B, dot r z = 0 := by
  intro r hr
  obtain ⟨j, _, rfl⟩ := List.mem_map.1 hr
  rw [← getD_comb k z B hB j, h, getD_zeros]

/-- soundness of `independent`: no non-trivial integer relation among the rows -/
theorem independent_sound (k : Nat) (B : List (List Int)) (hB : ∀ b ∈ B, b.length = k)
    (h : independent k B = true) :
    ∀ z : List Int, z.length = B.length → comb k z B = zeros k → ∀ c ∈ z, c = 0 := by
  intro z hz hcomb c hc
  have hrel : relations k B = [] := by
    simpa [independent, List.isEmpty_iff] using h
  obtain ⟨y, _, hy⟩ := intKernel_complete B.length (transposeK k B) z hz
    (dot_transposeK_of_comb_zero hB hcomb)
  have hrel' : intKernel B.length (transposeK k B) = [] := hrel
  rw [hrel'] at hy
  simp at hy
  rw [← hy] at hc
  exact mem_zeros hc

/-- soundness of `inIntSpan`: a positive answer comes with integer coefficients -/
theorem inIntSpan_sound (k : Nat) (B : List (List Int)) (e : List Int) (h : inIntSpan k B e = true) :
    ∃ z : List Int, comb k z B = e := by
  unfold inIntSpan at h
  simp only [Bool.and_eq_true] at h
  obtain ⟨_, h2⟩ := h
  obtain ⟨z, hz⟩ := Option.isSome_iff_exists.1 h2
  refine ⟨z, ?_⟩
  unfold spanCoeffs at hz
  simp only at hz
  split_ifs at hz with h1 h3
  · simp only [Option.some.injEq] at hz
    subst hz
    simpa [vecEq] using h3


/-! ### the verdicts are exact: completeness of `independent` and `inIntSpan` -/

lemma dot_comb_eq_zero' {k : Nat} {r z : List Int} {K : List (List Int)} (hK : ∀ b ∈ K, b.length = k)
    (h : ∀ b ∈ K, dot r b = 0) : dot r (comb k z K) = 0 := by
  rw [dot_comb k r z K hK, dot_comm]
  apply dot_eq_zero_of_forall_zero
  intro x hx
  obtain ⟨b, hb, rfl⟩ := List.mem_map.1 hx
  exact h b hb

lemma exists_fit' (k : Nat) (B : List (List Int)) (hB : ∀ b ∈ B, b.length = k) (z : List Int) :
    ∃ z' : List Int, z'.length = B.length ∧ comb k z' B = comb k z B := by
  induction B generalizing z with
  | nil => exact ⟨[], rfl, by simp⟩
  | cons b bs ih =>
    have hbs : ∀ r ∈ bs, r.length = k := fun r hr => hB r (by simp [hr])
    cases z with
    | nil =>
      refine ⟨zeros (bs.length + 1), by simp, ?_⟩
      rw [comb_zeros k _ _ hB]; simp
    | cons x xs =>
      obtain ⟨z', hl, hz'⟩ := ih hbs xs
      exact ⟨x :: z', by simp [hl], by simp [hz']⟩

lemma eq_zeros_of_getD {l : List Int} {k : Nat} (hl : l.length = k) (h : ∀ j < k, l.getD j 0 = 0) :
    l = zeros k := by
  induction l generalizing k with
  | nil => subst hl; rfl
  | cons a as ih =>
    cases k with
    | zero => simp at hl
    | succ k =>
      simp at hl
      have ha : a = 0 := by simpa using h 0 (Nat.succ_pos k)
      have := ih hl (fun j hj => by simpa using h (j + 1) (Nat.succ_lt_succ hj))
      rw [ha, this]; simp

lemma comb_zero_iff_transposeK {k : Nat} {B : List (List Int)} (hB : ∀ b ∈ B, b.length = k)
    (z : List Int) : (∀ r ∈ transposeK k B, dot r z = 0) ↔ comb k z B = zeros k := by
  constructor
  · intro h
    apply eq_zeros_of_getD (length_comb k z B hB)
    intro j hj
    rw [getD_comb k z B hB j]
    exact h _ (List.mem_map.2 ⟨j, List.mem_range.2 hj, rfl⟩)
  · exact dot_transposeK_of_comb_zero hB

/-- the integer relations among the rows of `B` -/
theorem relations_isBasis (k : Nat) (B : List (List Int)) (hB : ∀ b ∈ B, b.length = k) :
    IsBasisOf B.length (fun z => comb k z B = zeros k) (relations k B) :=
  (intKernel_isBasis B.length (transposeK k B)).congr (fun z _ => comb_zero_iff_transposeK hB z)

/-- `independent` answers `true` on every independent family -/
theorem independent_complete (k : Nat) (B : List (List Int)) (hB : ∀ b ∈ B, b.length = k)
    (h : ∀ z : List Int, z.length = B.length → comb k z B = zeros k → ∀ c ∈ z, c = 0) :
    independent k B = true := by
  have hR := relations_isBasis k B hB
  unfold independent
  cases hrel : relations k B with
  | nil => rfl
  | cons r rest =>
    exfalso
    rw [hrel] at hR
    have hr0 := h r (hR.len r (by simp)) (hR.sound r (by simp))
    have hrz : r = zeros B.length := by
      have := eq_zeros_of_forall hr0
      rwa [hR.len r (by simp)] at this
    have := hR.indep (1 :: zeros rest.length) (by simp) (by
      rw [comb_cons, comb_zeros _ _ _ (fun b hb => hR.len b (by simp [hb])), hrz]
      simp [smul_zeros]
      have := vadd_zeros_left (zeros B.length)
      simpa using this) 1 (by simp)
    exact one_ne_zero this

theorem independent_iff (k : Nat) (B : List (List Int)) (hB : ∀ b ∈ B, b.length = k) :
    independent k B = true ↔
      ∀ z : List Int, z.length = B.length → comb k z B = zeros k → ∀ c ∈ z, c = 0 :=
  ⟨independent_sound k B hB, independent_complete k B hB⟩

lemma comb_append (k : Nat) (z w : List Int) (B C : List (List Int)) (hz : z.length = B.length)
    (hB : ∀ b ∈ B, b.length = k) (hC : ∀ b ∈ C, b.length = k) :
    comb k (z ++ w) (B ++ C) = vadd (comb k z B) (comb k w C) := by
  induction z generalizing B with
  | nil =>
    have : B = [] := List.length_eq_zero_iff.1 hz.symm
    subst this
    simp
    have := vadd_zeros_left (comb k w C)
    rw [length_comb k w C hC] at this
    exact this.symm
  | cons x xs ih => cases B with
    | nil => simp at hz
    | cons b bs =>
      simp at hz
      have hbs : ∀ r ∈ bs, r.length = k := fun r hr => hB r (by simp [hr])
      simp only [List.cons_append, comb_cons]
      rw [ih bs hz hbs, vadd_assoc]

lemma take_smul (c : Int) (v : List Int) (n : Nat) : (smul c v).take n = smul c (v.take n) := by
  simp [smul, List.map_take]

lemma eq_take_append_getD (v : List Int) (m : Nat) (h : v.length = m + 1) :
    v = v.take m ++ [v.getD m 0] := by
  induction v generalizing m with
  | nil => simp at h
  | cons a as ih =>
    cases m with
    | zero =>
      have : as = [] := List.length_eq_zero_iff.1 (by simpa using h)
      subst this; simp
    | succ m =>
      simp at h
      have := ih m h
      simp only [List.take_succ_cons, List.cons_append, List.getD_cons_succ]
      rw [← this]

lemma smul_neg_of_vadd_eq_zeros (g : Int) (hg : g * g = 1) (a e : List Int) (k : Nat)
    (ha : a.length = k) (he : e.length = k) (h : vadd a (smul g e) = zeros k) : smul (-g) a = e := by
  induction a generalizing e k with
  | nil =>
    subst ha
    have : e = [] := List.length_eq_zero_iff.1 he
    subst this; rfl
  | cons x xs ih =>
    cases e with
    | nil => subst he; simp at ha
    | cons y ys =>
      cases k with
      | zero => simp at ha
      | succ k =>
        simp at ha he
        simp only [smul_cons, vadd_cons, zeros_succ, List.cons.injEq] at h
        obtain ⟨h1, h2⟩ := h
        simp only [smul_cons, List.cons.injEq]
        refine ⟨?_, ih ys k ha he h2⟩
        have : x = -(g * y) := by linarith
        rw [this]
        calc -g * -(g * y) = (g * g) * y := by ring
          _ = y := by rw [hg, one_mul]

lemma spanCoeffs_eq (k : Nat) (B : List (List Int)) (e : List Int) :
    spanCoeffs k B e =
      if (kerOne ((relations k (B ++ [e])).map (fun r => r.getD B.length 0))).g = 1 ∨
          (kerOne ((relations k (B ++ [e])).map (fun r => r.getD B.length 0))).g = -1 then
        if vecEq (comb k ((smul (-(kerOne ((relations k (B ++ [e])).map (fun r => r.getD B.length 0))).g)
            (comb (B.length + 1) (kerOne ((relations k (B ++ [e])).map (fun r => r.getD B.length 0))).u
              (relations k (B ++ [e])))).take B.length) B) e then
          some ((smul (-(kerOne ((relations k (B ++ [e])).map (fun r => r.getD B.length 0))).g)
            (comb (B.length + 1) (kerOne ((relations k (B ++ [e])).map (fun r => r.getD B.length 0))).u
              (relations k (B ++ [e])))).take B.length)
        else none
      else none := rfl

/-- `inIntSpan` answers `true` on every integer combination of the rows -/
theorem inIntSpan_complete (k : Nat) (B : List (List Int)) (hB : ∀ b ∈ B, b.length = k)
    (e : List Int) (he : e.length = k) (z : List Int) (hz : z.length = B.length) (hze : comb k z B = e) :
    inIntSpan k B e = true := by
  have hB' : ∀ b ∈ B ++ [e], b.length = k := by
    intro b hb
    rcases List.mem_append.1 hb with hb | hb
    · exact hB b hb
    · simp at hb; subst hb; exact he
  have hR := relations_isBasis k (B ++ [e]) hB'
  have hlen : (B ++ [e]).length = B.length + 1 := by simp
  rw [hlen] at hR
  set R := relations k (B ++ [e]) with hRdef
  set last := R.map (fun r => r.getD B.length 0) with hlast
  have hspec := kerOne_spec last
  -- the relation (z, -1)
  have hy0 : comb k (z ++ [-1]) (B ++ [e]) = zeros k := by
    rw [comb_append k z [-1] B [e] hz hB (by simp [he]), hze]
    simp only [comb_cons, comb_nil_left]
    have h1 : vadd (smul (-1) e) (zeros k) = smul (-1) e := by
      have := vadd_zeros_right (smul (-1) e)
      simpa [he] using this
    rw [h1]
    have := vadd_smul_cancel 1 e (zeros k) (by simp [he])
    -- e + (-1)•e = 0
    apply eq_zeros_of_getD (by rw [length_vadd _ _ (by simp), he])
    intro j _
    rw [getD_vadd _ _ (by simp), getD_smul]; ring
  obtain ⟨c, hcl, hc⟩ := hR.complete (z ++ [-1]) (by simp [hz]) hy0
  -- last coordinate: dot last c = -1
  have hdot : dot last c = -1 := by
    have h1 := getD_comb (B.length + 1) c R hR.len B.length
    rw [hc] at h1
    have h2 : (z ++ [-1]).getD B.length 0 = -1 := by
      rw [← hz]; simp
    rw [h2] at h1
    exact h1.symm
  have hgdvd : (kerOne last).g ∣ -1 := by
    rw [← hdot]; exact dvd_dot hspec.dvd c
  have hg1 : (kerOne last).g = 1 ∨ (kerOne last).g = -1 := by
    have : (kerOne last).g ∣ 1 := (dvd_neg).1 hgdvd
    exact Int.isUnit_iff.1 (isUnit_of_dvd_one this)
  have hgg : (kerOne last).g * (kerOne last).g = 1 := by
    rcases hg1 with h | h <;> rw [h] <;> norm_num
  -- the relation v with last coordinate g
  set v := comb (B.length + 1) (kerOne last).u R with hv
  have hvlen : v.length = B.length + 1 := length_comb _ _ _ hR.len
  have hvrel : comb k v (B ++ [e]) = zeros k := by
    rw [← comb_zero_iff_transposeK hB']
    intro r hr
    rw [hv]
    have hl2 : ∀ b ∈ R, b.length = B.length + 1 := hR.len
    apply dot_comb_eq_zero' hl2
    intro b hb
    exact ((comb_zero_iff_transposeK hB' b).2 (hR.sound b hb)) r hr
  have hvlast : v.getD B.length 0 = (kerOne last).g := by
    rw [hv, getD_comb (B.length + 1) _ R hR.len B.length]
    exact hspec.bez
  have hsplit := eq_take_append_getD v B.length hvlen
  rw [hvlast] at hsplit
  have hrel2 : vadd (comb k (v.take B.length) B) (smul (kerOne last).g e) = zeros k := by
    rw [hsplit] at hvrel
    rw [comb_append k (v.take B.length) [(kerOne last).g] B [e] (by simp [hvlen]) hB (by simp [he])] at hvrel
    simp only [comb_cons, comb_nil_left] at hvrel
    have h1 : vadd (smul (kerOne last).g e) (zeros k) = smul (kerOne last).g e := by
      have := vadd_zeros_right (smul (kerOne last).g e)
      simpa [he] using this
    rwa [h1] at hvrel
  have hfinal : comb k ((smul (-(kerOne last).g) v).take B.length) B = e := by
    rw [take_smul, comb_smul k _ _ B hB]
    exact smul_neg_of_vadd_eq_zeros _ hgg _ e k (length_comb k _ B hB) he hrel2
  unfold inIntSpan
  rw [spanCoeffs_eq]
  simp only [Bool.and_eq_true, beq_iff_eq]
  refine ⟨he, ?_⟩
  rw [if_pos hg1, if_pos (by simp only [vecEq, beq_iff_eq]; exact hfinal)]
  rfl

theorem inIntSpan_iff (k : Nat) (B : List (List Int)) (hB : ∀ b ∈ B, b.length = k) (e : List Int) :
    inIntSpan k B e = true ↔ e.length = k ∧ ∃ z : List Int, z.length = B.length ∧ comb k z B = e := by
  constructor
  · intro h
    have hl : e.length = k := by
      unfold inIntSpan at h
      simp only [Bool.and_eq_true, beq_iff_eq] at h
      exact h.1
    obtain ⟨z, hz⟩ := inIntSpan_sound k B e h
    obtain ⟨z', hl', hz'⟩ := exists_fit' k B hB z
    exact ⟨hl, z', hl', hz'.trans hz⟩
  · rintro ⟨hl, z, hz, hze⟩
    exact inIntSpan_complete k B hB e hl z hz hze


/-- non-vacuity of the hypotheses of `inIntSpan_sound`, `independent_sound`, `inIntSpan_complete`;
`inIntSpan` also handles dependent rows -/
example : inIntSpan 2 [[-3, 2]] [6, -4] = true ∧ inIntSpan 2 [[-6, 4]] [-3, 2] = false ∧
    inIntSpan 3 [[1, 0, 0], [0, 2, 0], [1, 0, 0]] [5, 4, 0] = true ∧
    independent 3 [[1, 0, 0], [0, 2, 0], [1, 0, 1]] = true ∧
    independent 3 [[1, 0, 0], [0, 2, 0], [1, 0, 0]] = false ∧
    intKernel 3 [[2, 3, 1]] ≠ [] := by
  refine ⟨by decide +kernel, by decide +kernel, by decide +kernel, by decide +kernel, by decide +kernel,
    by decide +kernel⟩

end Polar.Lattice
