/-
  PolarProofs/Renaming.lean — C20 ("equal up to the names of generated auxiliary symbols"): the reference semantics
  is invariant under injective renamings of the program variables.

  All statements are about the un-merged run `run P false`.  Two computations in `M = Except String` are compared by
  `MR r x y`: both fail, or both succeed with `r`-related results (error *texts* may differ: `unset:x` / `unset:ρ x`).

  Property theorems (each followed by a non-vacuity `example` at the end of the file):

  * `evalExpr_rename`, `evalConst_rename`, `evalCond_rename`, `evalRhs_rename`, `evalRhss_rename` — expressions,
    conditions and right sides (ALL families, continuous draws included: the atom table is threaded identically)
    evaluate to the same values in a store `s'` with `s'.get? (ρ x) = s.get? x` on the names `N` (`Look ρ N s s'`):
    values are polynomials over draw atoms only, program-variable names occur only as keys of the store.
  * `execStmt_rename` / `execBlock_rename` — every statement / block (guarded assignment, simultaneous assignment,
    nested if/else), by mutual induction: the renamed statement run from a related path yields the same weights in
    the same order, the same atom tables, and lookup-related stores (NOT equal association lists — `Store.set` keeps
    the list sorted by name, so a renaming permutes it).
  * `run_rename` — for every program, every `n`: `run (renameProgram ρ P) false n σ₀'` and `run P false n σ₀` fail
    together or agree position by position.
  * `moment_rename` — for every monomial `M`: E_{run (renameProgram ρ P) n σ₀'}(renameMono ρ M) = E_{run P n σ₀}(M)
    (as computations: both undefined or both defined and equal).  `moment_rename_renameStore` instantiates
    `σ₀' = renameStore ρ σ₀`.
  * `aux_names_irrelevant` — ρ injective on the names `N` of the program, the identity on the source variables `V`:
    every monomial over `V` has the same expectation at every `n` in `P` and in `renameProgram ρ P`, from the SAME
    initial store (which defines source variables only).  Independent of which fresh names (global counter) were used.

  `ρ` needs to be injective only on `N` (`InjOn'`); every name the program reads or writes must be in `N`.  `ρ` is not
  applied to draw atoms at all (atoms `@k` live inside the values, which a renaming of store keys does not touch), so
  no hypothesis "ρ fixes `@k`" is needed.

  The general part (`MR`, `WR`, `bindW_MR`, `iterN_MR`, `run_MR`, `E_MR`) is reused by `PolarProofs/Spelling.lean`.
-/
import Mathlib.Tactic
import Polar.Sem
import Polar.Validate
import PolarProofs.PolyEval
open Polar Polar.VP

namespace Polar.Ren

/-! ### comparing two computations in `M` -/

/-- both fail, or both succeed with related results -/
def MR {α β : Type} (r : α → β → Prop) : M α → M β → Prop
  | .ok a, .ok b => r a b
  | .error _, .error _ => True
  | _, _ => False

theorem MR.ok {α β : Type} {r : α → β → Prop} {a : α} {b : β} (h : r a b) : MR r (.ok a) (.ok b) := h

theorem MR.pure {α β : Type} {r : α → β → Prop} {a : α} {b : β} (h : r a b) :
    MR r (Pure.pure a : M α) (Pure.pure b : M β) := h

theorem MR.error {α β : Type} {r : α → β → Prop} (e e' : String) : MR r (.error e : M α) (.error e' : M β) :=
  trivial

theorem MR.throw {α β : Type} {r : α → β → Prop} (e e' : String) :
    MR r (throw e : M α) (throw e' : M β) := trivial

theorem MR.refl {α : Type} {x : M α} : MR Eq x x := by
  cases x <;> simp [MR]

theorem MR.of_eq {α : Type} {x y : M α} (h : x = y) : MR Eq x y := h ▸ MR.refl

theorem MR.bind {α β α' β' : Type} {r : α → β → Prop} {r' : α' → β' → Prop} {x : M α} {y : M β}
    {f : α → M α'} {g : β → M β'} (h : MR r x y) (hf : ∀ a b, r a b → MR r' (f a) (g b)) :
    MR r' (x >>= f) (y >>= g) := by
  cases x with
  | error e => cases y with
    | error e' => exact trivial
    | ok b => exact h.elim
  | ok a => cases y with
    | error e' => exact h.elim
    | ok b => exact hf a b h

theorem MR.mono {α β : Type} {r r' : α → β → Prop} {x : M α} {y : M β} (h : MR r x y)
    (hr : ∀ a b, r a b → r' a b) : MR r' x y := by
  cases x <;> cases y <;> simp_all [MR]

theorem MR.symm {α β : Type} {r : α → β → Prop} {x : M α} {y : M β} (h : MR r x y) :
    MR (fun b a => r a b) y x := by
  cases x <;> cases y <;> simp_all [MR]

theorem MR.trans {α β γ : Type} {r : α → β → Prop} {r' : β → γ → Prop} {r'' : α → γ → Prop}
    {x : M α} {y : M β} {z : M γ} (h : MR r x y) (h' : MR r' y z)
    (hr : ∀ a b c, r a b → r' b c → r'' a c) : MR r'' x z := by
  cases x <;> cases y <;> cases z <;> simp_all [MR]
  exact hr _ _ _ h h'

/-- the left side succeeds iff the right side does, with related results -/
theorem MR.ok_left {α β : Type} {r : α → β → Prop} {x : M α} {y : M β} (h : MR r x y) {a : α} (hx : x = .ok a) :
    ∃ b, y = .ok b ∧ r a b := by
  subst hx
  cases y with
  | error e => exact h.elim
  | ok b => exact ⟨b, rfl, h⟩

theorem MR.ok_right {α β : Type} {r : α → β → Prop} {x : M α} {y : M β} (h : MR r x y) {b : β} (hy : y = .ok b) :
    ∃ a, x = .ok a ∧ r a b := by
  subst hy
  cases x with
  | error e => exact h.elim
  | ok a => exact ⟨a, rfl, h⟩

theorem MR.eq_ok_iff {α : Type} {x y : M α} (h : MR Eq x y) (a : α) : x = .ok a ↔ y = .ok a := by
  constructor
  · intro hx
    obtain ⟨b, hb, rfl⟩ := h.ok_left hx
    exact hb
  · intro hy
    obtain ⟨b, hb, rfl⟩ := h.ok_right hy
    exact hb

/-- `forIn` over position-wise related lists with related bodies -/
theorem forIn_MR {α α' σ : Type} {R : α' → α → Prop} {f' : α' → σ → M (ForInStep σ)} {f : α → σ → M (ForInStep σ)}
    {l' : List α'} {l : List α} (hl : List.Forall₂ R l' l)
    (hf : ∀ a' a st, R a' a → MR Eq (f' a' st) (f a st)) (st : σ) : MR Eq (forIn l' st f') (forIn l st f) := by
  induction hl generalizing st with
  | nil => exact MR.refl
  | @cons a' a t' t haa _ ih =>
    rw [List.forIn_cons, List.forIn_cons]
    refine MR.bind (hf a' a st haa) (fun x y hxy => ?_)
    subst hxy
    cases x with
    | done b => exact MR.refl
    | yield b => exact ih b

/-! ### weighted lists of paths -/

/-- position-wise: same weight, related paths -/
def WR (PR : Path → Path → Prop) : WD → WD → Prop :=
  List.Forall₂ (fun a b => a.1 = b.1 ∧ PR a.2 b.2)

theorem WR.scale {PR : Path → Path → Prop} (w : Rat) {A A' : WD} (h : WR PR A A') :
    WR PR (A.map (fun x => (w * x.1, x.2))) (A'.map (fun x => (w * x.1, x.2))) := by
  induction h with
  | nil => exact List.Forall₂.nil
  | @cons a b _ _ hab _ ih =>
    simp only [List.map_cons]
    exact List.Forall₂.cons ⟨by rw [hab.1], hab.2⟩ ih

theorem WR.append {PR : Path → Path → Prop} {A A' B B' : WD} (h1 : WR PR A A') (h2 : WR PR B B') :
    WR PR (A ++ B) (A' ++ B') := List.rel_append h1 h2

theorem WR.mono {PR PR' : Path → Path → Prop} {A A' : WD} (h : WR PR A A') (hr : ∀ q q', PR q q' → PR' q q') :
    WR PR' A A' := by
  induction h with
  | nil => exact List.Forall₂.nil
  | cons hab _ ih => exact List.Forall₂.cons ⟨hab.1, hr _ _ hab.2⟩ ih

/-- the weighted bind respects the relations -/
theorem bindW_MR {PR PR' : Path → Path → Prop} {f f' : Path → M WD} {D D' : WD} (hD : WR PR D D')
    (hf : ∀ q q', PR q q' → MR (WR PR') (f q) (f' q')) : MR (WR PR') (bindW D f) (bindW D' f') := by
  induction hD with
  | nil => exact MR.pure List.Forall₂.nil
  | @cons a b ta tb hab _ ih =>
    obtain ⟨w, q⟩ := a
    obtain ⟨w', q'⟩ := b
    obtain ⟨hw, hq⟩ := hab
    simp only at hw hq
    subst hw
    simp only [bindW]
    refine MR.bind (hf q q' hq) (fun A A' hA => MR.bind ih (fun B B' hB => ?_))
    exact MR.pure (WR.append (WR.scale w hA) hB)

theorem iter_MR {PR : Path → Path → Prop} {P P' : Program} {q q' : Path}
    (hg : MR Eq (evalCond q.vals P.guard) (evalCond q'.vals P'.guard))
    (hb : MR (WR PR) (execBlock P.body q) (execBlock P'.body q')) (hq : PR q q') :
    MR (WR PR) (iter P q) (iter P' q') := by
  unfold iter
  refine MR.bind hg (fun b b' hbb => ?_)
  subst hbb
  cases b with
  | true => simpa using hb
  | false =>
    simp only [Bool.false_eq_true, if_false]
    exact MR.pure (List.Forall₂.cons ⟨rfl, hq⟩ List.Forall₂.nil)

theorem iterN_MR {PR : Path → Path → Prop} {P P' : Program}
    (hiter : ∀ q q', PR q q' → MR (WR PR) (iter P q) (iter P' q')) (n : Nat) :
    ∀ {D D' : WD}, WR PR D D' → MR (WR PR) (iterN P false n D) (iterN P' false n D') := by
  induction n with
  | zero =>
    intro D D' hD
    simp only [iterN]
    exact MR.pure hD
  | succ n ih =>
    intro D D' hD
    rw [iterN, iterN]
    simp only [Bool.false_eq_true, if_false, bindM_eq]
    exact MR.bind (bindW_MR hD hiter) (fun E E' hE => ih hE)

theorem run_MR {PR : Path → Path → Prop} {P P' : Program} {σ σ' : Store}
    (hinit : MR (WR PR) (execBlock P.init ⟨σ, []⟩) (execBlock P'.init ⟨σ', []⟩))
    (hiter : ∀ q q', PR q q' → MR (WR PR) (iter P q) (iter P' q')) (n : Nat) :
    MR (WR PR) (run P false n σ) (run P' false n σ') := by
  unfold run
  refine MR.bind hinit (fun d d' hd => ?_)
  simp only [Bool.false_eq_true, if_false]
  exact iterN_MR hiter n hd

theorem E_cons (a : Rat × Path) (t : WD) (m : Mono) :
    WD.E (a :: t) m = (do let acc ← WD.E t m; let v ← pathE m a.2; Pure.pure (a.1 * v + acc)) := by
  simp only [WD.E, List.foldrM_cons]

/-- expectations of related monomials over related weighted lists -/
theorem E_MR {PR : Path → Path → Prop} {m m' : Mono}
    (hp : ∀ q q', PR q q' → MR Eq (pathE m q) (pathE m' q')) {D D' : WD} (h : WR PR D D') :
    MR Eq (D.E m) (D'.E m') := by
  induction h with
  | nil => exact MR.refl
  | @cons a b _ _ hab _ ih =>
    rw [E_cons, E_cons]
    refine MR.bind ih (fun acc acc' hacc => MR.bind (hp _ _ hab.2) (fun v v' hv => ?_))
    subst hacc hv
    rw [hab.1]
    exact MR.refl

open Polar.Validate in
theorem momentU_MR {PR : Path → Path → Prop} {P P' : Program} {σ σ' : Store} {m m' : Mono} {n : Nat}
    (hrun : MR (WR PR) (run P false n σ) (run P' false n σ'))
    (hp : ∀ q q', PR q q' → MR Eq (pathE m q) (pathE m' q')) :
    MR Eq (momentU P m n σ) (momentU P' m' n σ') := by
  unfold momentU
  exact MR.bind hrun (fun D D' hD => E_MR hp hD)

/-! ### renamings -/

def renameExpr (ρ : String → String) : Expr → Expr
  | .num r => .num r
  | .var x => .var (ρ x)
  | .add a b => .add (renameExpr ρ a) (renameExpr ρ b)
  | .sub a b => .sub (renameExpr ρ a) (renameExpr ρ b)
  | .mul a b => .mul (renameExpr ρ a) (renameExpr ρ b)
  | .neg a => .neg (renameExpr ρ a)
  | .pow a k => .pow (renameExpr ρ a) k
  | .div a b => .div (renameExpr ρ a) (renameExpr ρ b)

def renameCond (ρ : String → String) : Cond → Cond
  | .tt => .tt
  | .ff => .ff
  | .cmp op l r => .cmp op (renameExpr ρ l) (renameExpr ρ r)
  | .not c => .not (renameCond ρ c)
  | .and a b => .and (renameCond ρ a) (renameCond ρ b)
  | .or a b => .or (renameCond ρ a) (renameCond ρ b)

def renameRhs (ρ : String → String) : Rhs → Rhs
  | .expr e => .expr (renameExpr ρ e)
  | .choice alts => .choice (alts.map (fun a => (renameExpr ρ a.1, renameExpr ρ a.2)))
  | .dist name params => .dist name (params.map (renameExpr ρ))

mutual
def renameStmt (ρ : String → String) : Stmt → Stmt
  | .assign x rhs g d => .assign (ρ x) (renameRhs ρ rhs) (renameCond ρ g) (ρ d)
  | .simult xs rhss => .simult (xs.map ρ) (rhss.map (renameRhs ρ))
  | .ite c t e => .ite (renameCond ρ c) (renameBlock ρ t) (renameBlock ρ e)
def renameBlock (ρ : String → String) : List Stmt → List Stmt
  | [] => []
  | s :: rest => renameStmt ρ s :: renameBlock ρ rest
end

def renameProgram (ρ : String → String) (P : Program) : Program :=
  { init := renameBlock ρ P.init, guard := renameCond ρ P.guard, body := renameBlock ρ P.body }

/-- renaming of the keys of a store (the values — polynomials over draw atoms — are untouched) -/
def renameStore (ρ : String → String) (s : Store) : Store := s.map (fun xv => (ρ xv.1, xv.2))

def renameMono (ρ : String → String) (m : Mono) : Mono := m.map (fun xe => (ρ xe.1, xe.2))

theorem renameBlock_eq_map (ρ : String → String) (b : List Stmt) : renameBlock ρ b = b.map (renameStmt ρ) := by
  induction b with
  | nil => simp [renameBlock]
  | cons s rest ih => simp [renameBlock, ih]

/-! ### the names a piece of syntax mentions -/

def exprIn (N : String → Prop) : Expr → Prop
  | .num _ => True
  | .var x => N x
  | .add a b => exprIn N a ∧ exprIn N b
  | .sub a b => exprIn N a ∧ exprIn N b
  | .mul a b => exprIn N a ∧ exprIn N b
  | .neg a => exprIn N a
  | .pow a _ => exprIn N a
  | .div a b => exprIn N a ∧ exprIn N b

def condIn (N : String → Prop) : Cond → Prop
  | .tt => True
  | .ff => True
  | .cmp _ l r => exprIn N l ∧ exprIn N r
  | .not c => condIn N c
  | .and a b => condIn N a ∧ condIn N b
  | .or a b => condIn N a ∧ condIn N b

def rhsIn (N : String → Prop) : Rhs → Prop
  | .expr e => exprIn N e
  | .choice alts => ∀ a ∈ alts, exprIn N a.1 ∧ exprIn N a.2
  | .dist _ params => ∀ e ∈ params, exprIn N e

mutual
/-- every name the statement reads or writes is in `N` -/
def stmtIn (N : String → Prop) : Stmt → Prop
  | .assign x rhs g d => N x ∧ rhsIn N rhs ∧ condIn N g ∧ N d
  | .simult xs rhss => (∀ x ∈ xs, N x) ∧ (∀ r ∈ rhss, rhsIn N r)
  | .ite c t e => condIn N c ∧ blockIn N t ∧ blockIn N e
def blockIn (N : String → Prop) : List Stmt → Prop
  | [] => True
  | s :: rest => stmtIn N s ∧ blockIn N rest
end

def progIn (N : String → Prop) (P : Program) : Prop := blockIn N P.init ∧ condIn N P.guard ∧ blockIn N P.body

def monoIn (N : String → Prop) (m : Mono) : Prop := ∀ xe ∈ m, N xe.1

/-- `ρ` is injective on the names in `N` -/
def InjOn' (ρ : String → String) (N : String → Prop) : Prop := ∀ x y, N x → N y → ρ x = ρ y → x = y

/-- lookup equivalence: the renamed name holds in `s'` what the name holds in `s` -/
def Look (ρ : String → String) (N : String → Prop) (s s' : Store) : Prop := ∀ x, N x → s'.get? (ρ x) = s.get? x

/-- related paths: same atom table, lookup-equivalent stores -/
def PRen (ρ : String → String) (N : String → Prop) (q q' : Path) : Prop :=
  q'.atoms = q.atoms ∧ Look ρ N q.vals q'.vals

theorem Look.set {ρ : String → String} {N : String → Prop} (hinj : InjOn' ρ N) {s s' : Store} (h : Look ρ N s s')
    {x : String} (hx : N x) (v : MPoly) : Look ρ N (s.set x v) (s'.set (ρ x) v) := by
  intro y hy
  rw [store_get_set, store_get_set]
  by_cases hyx : y = x
  · simp [hyx]
  · have : ¬ ρ y = ρ x := fun he => hyx (hinj y x hy hx he)
    simp [hyx, this, h y hy]

theorem Look.setMany {ρ : String → String} {N : String → Prop} (hinj : InjOn' ρ N) (xs : List String)
    (hx : ∀ x ∈ xs, N x) (vs : List MPoly) {s s' : Store} (h : Look ρ N s s') :
    Look ρ N (setMany s xs vs) (setMany s' (xs.map ρ) vs) := by
  induction xs generalizing vs s s' with
  | nil => simpa [Polar.setMany] using h
  | cons x xs ih =>
    cases vs with
    | nil => simpa [Polar.setMany] using h
    | cons v vs =>
      simp only [List.map_cons, Polar.setMany]
      exact ih (fun y hy => hx y (by simp [hy])) vs (h.set hinj (hx x (by simp)) v)

theorem store_get_map (ρ : String → String) (s : Store) (x : String)
    (hinj : ∀ y, s.get? y ≠ none → ρ y = ρ x → y = x) :
    (renameStore ρ s).get? (ρ x) = s.get? x := by
  induction s with
  | nil => rfl
  | cons a t ih =>
    obtain ⟨z, w⟩ := a
    simp only [renameStore, List.map_cons] at ih ⊢
    rw [store_get_cons, store_get_cons]
    by_cases hz : z = x
    · simp [hz]
    · have h1 : ¬ ρ z = ρ x := fun he => hz (hinj z (by rw [store_get_cons]; simp) he)
      simp only [hz, h1, if_false]
      refine ih (fun y hy he => hinj y ?_ he)
      rw [store_get_cons]
      by_cases hzy : z = y
      · simp [hzy]
      · simpa [hzy] using hy

/-- `renameStore ρ s` is lookup-equivalent to `s` when `ρ` is injective on `N` and `s` defines names of `N` only -/
theorem look_renameStore {ρ : String → String} {N : String → Prop} (hinj : InjOn' ρ N) (s : Store)
    (hs : ∀ y, s.get? y ≠ none → N y) : Look ρ N s (renameStore ρ s) := by
  intro x hx
  exact store_get_map ρ s x (fun y hy he => hinj y x (hs y hy) hx he)

/-! ### expressions, conditions -/

theorem evalExpr_rename {ρ : String → String} {N : String → Prop} {s s' : Store} (h : Look ρ N s s') (e : Expr)
    (he : exprIn N e) : MR Eq (evalExpr s e) (evalExpr s' (renameExpr ρ e)) := by
  induction e with
  | num r => exact MR.refl
  | var x =>
    simp only [renameExpr, evalExpr, h x he]
    cases s.get? x with
    | none => exact MR.throw _ _
    | some v => exact MR.refl
  | add a b iha ihb =>
    simp only [renameExpr, evalExpr]
    refine MR.bind (iha he.1) (fun u u' hu => MR.bind (ihb he.2) (fun v v' hv => ?_))
    subst hu hv; exact MR.refl
  | sub a b iha ihb =>
    simp only [renameExpr, evalExpr]
    refine MR.bind (iha he.1) (fun u u' hu => MR.bind (ihb he.2) (fun v v' hv => ?_))
    subst hu hv; exact MR.refl
  | mul a b iha ihb =>
    simp only [renameExpr, evalExpr]
    refine MR.bind (iha he.1) (fun u u' hu => MR.bind (ihb he.2) (fun v v' hv => ?_))
    subst hu hv; exact MR.refl
  | neg a iha =>
    simp only [renameExpr, evalExpr]
    refine MR.bind (iha he) (fun u u' hu => ?_)
    subst hu; exact MR.refl
  | pow a k iha =>
    simp only [renameExpr, evalExpr]
    refine MR.bind (iha he) (fun u u' hu => ?_)
    subst hu; exact MR.refl
  | div a b iha ihb =>
    simp only [renameExpr, evalExpr]
    refine MR.bind (ihb he.2) (fun v v' hv => ?_)
    subst hv
    split
    · split
      · exact MR.refl
      · refine MR.bind (iha he.1) (fun u u' hu => ?_)
        subst hu; exact MR.refl
    · exact MR.refl

theorem evalConst_rename {ρ : String → String} {N : String → Prop} {s s' : Store} (h : Look ρ N s s') (e : Expr)
    (he : exprIn N e) : MR Eq (evalConst s e) (evalConst s' (renameExpr ρ e)) := by
  unfold evalConst
  refine MR.bind (evalExpr_rename h e he) (fun u u' hu => ?_)
  subst hu; exact MR.refl

theorem evalCond_rename {ρ : String → String} {N : String → Prop} {s s' : Store} (h : Look ρ N s s') (c : Cond)
    (hc : condIn N c) : MR Eq (evalCond s c) (evalCond s' (renameCond ρ c)) := by
  induction c with
  | tt => exact MR.refl
  | ff => exact MR.refl
  | cmp op l r =>
    simp only [renameCond, evalCond]
    refine MR.bind (evalExpr_rename h l hc.1) (fun u u' hu => MR.bind (evalExpr_rename h r hc.2) (fun v v' hv => ?_))
    subst hu hv; exact MR.refl
  | not c ih =>
    simp only [renameCond, evalCond]
    refine MR.bind (ih hc) (fun u u' hu => ?_)
    subst hu; exact MR.refl
  | and a b iha ihb =>
    simp only [renameCond, evalCond]
    refine MR.bind (iha hc.1) (fun u u' hu => MR.bind (ihb hc.2) (fun v v' hv => ?_))
    subst hu hv; exact MR.refl
  | or a b iha ihb =>
    simp only [renameCond, evalCond]
    refine MR.bind (iha hc.1) (fun u u' hu => MR.bind (ihb hc.2) (fun v v' hv => ?_))
    subst hu hv; exact MR.refl

/-! ### right-hand sides -/

/-- the (family, number of parameters) pairs `evalRhs` knows -/
def supported (name : String) (k : Nat) : Prop :=
  (name = "Bernoulli" ∧ k = 1) ∨ name = "Categorical" ∨ (name = "DiscreteUniform" ∧ k = 2) ∨
  (name = "Normal" ∧ k = 2) ∨ (name = "Uniform" ∧ k = 2) ∨ (name = "Laplace" ∧ k = 2) ∨
  (name = "Exponential" ∧ k = 1) ∨ (name = "Gamma" ∧ k = 2) ∨ (name = "Beta" ∧ k = 2)

theorem dist_unsupported (p : Path) (name : String) (ps : List Expr) (h : ¬ supported name ps.length) :
    evalRhs p (.dist name ps) = throw s!"unsupported-dist:{name}" := by
  simp only [evalRhs]
  split <;> first | rfl | (exfalso; apply h; simp [supported])

theorem forall₂_map_self {α β : Type} (f : α → β) (l : List α) :
    List.Forall₂ (fun a b => a ∈ l ∧ b = f a) l (l.map f) := by
  rw [List.forall₂_map_right_iff, List.forall₂_same]
  intro x hx
  exact ⟨hx, rfl⟩

theorem evalRhs_rename {ρ : String → String} {N : String → Prop} {q q' : Path} (hq : PRen ρ N q q') (r : Rhs)
    (hr : rhsIn N r) : MR Eq (evalRhs q r) (evalRhs q' (renameRhs ρ r)) := by
  obtain ⟨s, at0⟩ := q
  obtain ⟨s', at0'⟩ := q'
  obtain ⟨hat, h⟩ := hq
  simp only at hat h
  subst hat
  have hE : ∀ e, exprIn N e → MR Eq (evalExpr s e) (evalExpr s' (renameExpr ρ e)) := fun e => evalExpr_rename h e
  have hC : ∀ e, exprIn N e → MR Eq (evalConst s e) (evalConst s' (renameExpr ρ e)) := fun e => evalConst_rename h e
  cases r with
  | expr e =>
    simp only [renameRhs, evalRhs]
    refine MR.bind (hE e hr) (fun u u' hu => ?_)
    subst hu; exact MR.refl
  | choice alts =>
    simp only [renameRhs, evalRhs]
    refine MR.bind (forIn_MR (forall₂_map_self _ alts) ?_ _) (fun u u' hu => ?_)
    · rintro ⟨e, pr⟩ a' st ⟨hm, rfl⟩
      have := hr _ hm
      refine MR.bind (hC pr this.2) (fun u u' hu => MR.bind (hE e this.1) (fun v v' hv => ?_))
      subst hu hv; exact MR.refl
    · subst hu; exact MR.refl
  | dist name params =>
    by_cases hs : supported name params.length
    · have hin : ∀ e ∈ params, exprIn N e := hr
      clear hr
      rcases hs with ⟨rfl, hk⟩ | rfl | ⟨rfl, hk⟩ | ⟨rfl, hk⟩ | ⟨rfl, hk⟩ | ⟨rfl, hk⟩ | ⟨rfl, hk⟩ | ⟨rfl, hk⟩ | ⟨rfl, hk⟩
      case inr.inl =>
        -- Categorical
        simp only [renameRhs, evalRhs]
        refine MR.bind (forIn_MR (forall₂_map_self _ params) ?_ _) (fun u u' hu => ?_)
        · rintro e a' st ⟨hm, rfl⟩
          refine MR.bind (hC e (hin e hm)) (fun u u' hu => ?_)
          subst hu; exact MR.refl
        · subst hu; exact MR.refl
      all_goals
        first
          | obtain ⟨a, rfl⟩ := List.length_eq_one_iff.mp hk
          | obtain ⟨a, b, rfl⟩ := List.length_eq_two.mp hk
        simp only [renameRhs, List.map, evalRhs]
        repeat
          first
            | (refine MR.bind (hE _ (hin _ (by simp))) (fun u u' hu => ?_); subst hu)
            | (refine MR.bind (hC _ (hin _ (by simp))) (fun u u' hu => ?_); subst hu)
        exact MR.refl
    · rw [dist_unsupported _ _ _ hs, renameRhs, dist_unsupported _ _ _ (by simpa using hs)]
      exact MR.throw _ _

/-! ### several right sides against the same store (simultaneous assignment) -/

/-- specification of the nested loops of `evalRhss` -/
def bindR : List (Rat × MPoly × List Atom) → (List Atom → M (List (Rat × List MPoly × List Atom))) →
    M (List (Rat × List MPoly × List Atom))
  | [], _ => pure []
  | (w, v, at1) :: fs, g => do
    let a ← g at1
    let b ← bindR fs g
    pure (a.map (fun y => (w * y.1, v :: y.2.1, y.2.2)) ++ b)

theorem innerR_loop (w : Rat) (v : MPoly) (rests out : List (Rat × List MPoly × List Atom)) :
    (forIn rests out (fun (x : Rat × List MPoly × List Atom) (s : List (Rat × List MPoly × List Atom)) =>
        (pure (ForInStep.yield (s ++ [(w * x.1, v :: x.2.1, x.2.2)])) : M _)))
      = pure (out ++ rests.map (fun y => (w * y.1, v :: y.2.1, y.2.2))) := by
  induction rests generalizing out with
  | nil => simp
  | cons a t ih =>
    rw [List.forIn_cons, pure_bind]
    simp only []
    rw [ih]
    simp

theorem outerR_loop (g : List Atom → M (List (Rat × List MPoly × List Atom)))
    (firsts : List (Rat × MPoly × List Atom)) (out : List (Rat × List MPoly × List Atom)) :
    (forIn firsts out (fun (x : Rat × MPoly × List Atom) (s : List (Rat × List MPoly × List Atom)) => do
        let rests ← g x.2.2
        (pure (ForInStep.yield (s ++ rests.map (fun y => (x.1 * y.1, x.2.1 :: y.2.1, y.2.2)))) : M _)))
      = (do let l ← bindR firsts g; pure (out ++ l)) := by
  induction firsts generalizing out with
  | nil => simp [bindR]
  | cons a t ih =>
    rw [List.forIn_cons]
    obtain ⟨w, v, at1⟩ := a
    simp only [bindR, bind_assoc, pure_bind]
    cases hg : g at1 with
    | error e => rfl
    | ok rests =>
      have h := ih (out ++ rests.map (fun y => (w * y.1, v :: y.2.1, y.2.2)))
      simp only [Except.bind, bind] at h ⊢
      rw [h]
      cases bindR t g with
      | error e => rfl
      | ok l => simp

theorem evalRhss_nil (vals : Store) (atoms : List Atom) : evalRhss vals [] atoms = pure [(1, [], atoms)] := by
  rw [evalRhss]

theorem evalRhss_cons (vals : Store) (r : Rhs) (rs : List Rhs) (atoms : List Atom) :
    evalRhss vals (r :: rs) atoms =
      (do let firsts ← evalRhs ⟨vals, atoms⟩ r; bindR firsts (evalRhss vals rs)) := by
  rw [evalRhss]
  simp only [innerR_loop, pure_bind]
  congr 1
  funext firsts
  have := outerR_loop (evalRhss vals rs) firsts []
  rw [this]
  cases bindR firsts (evalRhss vals rs) with
  | error e => rfl
  | ok l => simp [bind, Except.bind, pure, Except.pure]

theorem bindR_MR {g g' : List Atom → M (List (Rat × List MPoly × List Atom))}
    (hg : ∀ at1, MR Eq (g at1) (g' at1)) (fs : List (Rat × MPoly × List Atom)) :
    MR Eq (bindR fs g) (bindR fs g') := by
  induction fs with
  | nil => exact MR.refl
  | cons a t ih =>
    obtain ⟨w, v, at1⟩ := a
    simp only [bindR]
    refine MR.bind (hg at1) (fun x x' hx => MR.bind ih (fun y y' hy => ?_))
    subst hx hy; exact MR.refl

theorem evalRhss_rename {ρ : String → String} {N : String → Prop} {s s' : Store} (h : Look ρ N s s')
    (rhss : List Rhs) (hr : ∀ r ∈ rhss, rhsIn N r) (atoms : List Atom) :
    MR Eq (evalRhss s rhss atoms) (evalRhss s' (rhss.map (renameRhs ρ)) atoms) := by
  induction rhss generalizing atoms with
  | nil => rw [List.map_nil, evalRhss_nil, evalRhss_nil]; exact MR.refl
  | cons r rs ih =>
    rw [List.map_cons, evalRhss_cons, evalRhss_cons]
    refine MR.bind (evalRhs_rename (q := ⟨s, atoms⟩) (q' := ⟨s', atoms⟩) ⟨rfl, h⟩ r (hr r (by simp)))
      (fun fs fs' hfs => ?_)
    subst hfs
    exact bindR_MR (fun at1 => ih (fun r' hr' => hr r' (by simp [hr'])) at1) fs

/-! ### statements and blocks -/

theorem outs_rename {ρ : String → String} {N : String → Prop} (hinj : InjOn' ρ N) {s s' : Store} (h : Look ρ N s s')
    {x : String} (hx : N x) (outs : List (Rat × MPoly × List Atom)) :
    WR (PRen ρ N)
      (outs.map (fun (o : Rat × MPoly × List Atom) => (o.1, ({ vals := s.set x o.2.1, atoms := o.2.2 } : Path))))
      (outs.map (fun (o : Rat × MPoly × List Atom) => (o.1, ({ vals := s'.set (ρ x) o.2.1, atoms := o.2.2 } : Path)))) := by
  induction outs with
  | nil => exact List.Forall₂.nil
  | cons o t ih =>
    simp only [List.map_cons]
    exact List.Forall₂.cons ⟨rfl, rfl, h.set hinj hx _⟩ ih

theorem outsMany_rename {ρ : String → String} {N : String → Prop} (hinj : InjOn' ρ N) {s s' : Store}
    (h : Look ρ N s s') (xs : List String) (hx : ∀ x ∈ xs, N x) (outs : List (Rat × List MPoly × List Atom)) :
    WR (PRen ρ N)
      (outs.map (fun (o : Rat × List MPoly × List Atom) =>
        (o.1, ({ vals := setMany s xs o.2.1, atoms := o.2.2 } : Path))))
      (outs.map (fun (o : Rat × List MPoly × List Atom) =>
        (o.1, ({ vals := setMany s' (xs.map ρ) o.2.1, atoms := o.2.2 } : Path)))) := by
  induction outs with
  | nil => exact List.Forall₂.nil
  | cons o t ih =>
    simp only [List.map_cons]
    exact List.Forall₂.cons ⟨rfl, rfl, h.setMany hinj xs hx _⟩ ih

theorem assign_rename {ρ : String → String} {N : String → Prop} (hinj : InjOn' ρ N) {q q' : Path}
    (hq : PRen ρ N q q') (x : String) (rhs : Rhs) (g : Cond) (d : String)
    (hx : N x) (hr : rhsIn N rhs) (hg : condIn N g) (hd : N d) :
    MR (WR (PRen ρ N)) (execStmt (.assign x rhs g d) q)
      (execStmt (.assign (ρ x) (renameRhs ρ rhs) (renameCond ρ g) (ρ d)) q') := by
  rw [execStmt, execStmt]
  refine MR.bind (evalCond_rename hq.2 g hg) (fun b b' hb => ?_)
  subst hb
  cases b with
  | true =>
    simp only [if_true]
    refine MR.bind (evalRhs_rename hq rhs hr) (fun o o' ho => ?_)
    subst ho
    exact MR.pure (outs_rename hinj hq.2 hx o)
  | false =>
    simp only [Bool.false_eq_true, if_false]
    rw [hq.2 d hd]
    cases q.vals.get? d with
    | none => exact MR.throw _ _
    | some v =>
      refine MR.pure (List.Forall₂.cons ⟨rfl, ?_, ?_⟩ List.Forall₂.nil)
      · exact hq.1
      · exact hq.2.set hinj hx v

theorem simult_rename {ρ : String → String} {N : String → Prop} (hinj : InjOn' ρ N) {q q' : Path}
    (hq : PRen ρ N q q') (xs : List String) (rhss : List Rhs) (hx : ∀ x ∈ xs, N x) (hr : ∀ r ∈ rhss, rhsIn N r) :
    MR (WR (PRen ρ N)) (execStmt (.simult xs rhss) q)
      (execStmt (.simult (xs.map ρ) (rhss.map (renameRhs ρ))) q') := by
  rw [execStmt, execStmt]
  simp only [List.length_map]
  by_cases hlen : xs.length = rhss.length
  · simp only [hlen, ne_eq, not_true_eq_false, if_false]
    rw [hq.1]
    refine MR.bind (evalRhss_rename hq.2 rhss hr q.atoms) (fun o o' ho => ?_)
    subst ho
    exact MR.pure (outsMany_rename hinj hq.2 xs hx o)
  · simp only [ne_eq, hlen, not_false_eq_true, if_true]
    exact MR.throw _ _

mutual
theorem execStmt_rename {ρ : String → String} {N : String → Prop} (hinj : InjOn' ρ N) (st : Stmt) {q q' : Path}
    (hq : PRen ρ N q q') (hin : stmtIn N st) :
    MR (WR (PRen ρ N)) (execStmt st q) (execStmt (renameStmt ρ st) q') := by
  cases st with
  | assign x rhs g d =>
    simp only [stmtIn] at hin
    simp only [renameStmt]
    exact assign_rename hinj hq x rhs g d hin.1 hin.2.1 hin.2.2.1 hin.2.2.2
  | simult xs rhss =>
    simp only [stmtIn] at hin
    simp only [renameStmt]
    exact simult_rename hinj hq xs rhss hin.1 hin.2
  | ite c t e =>
    simp only [stmtIn] at hin
    simp only [renameStmt]
    rw [execStmt, execStmt]
    refine MR.bind (evalCond_rename hq.2 c hin.1) (fun b b' hb => ?_)
    subst hb
    cases b with
    | true =>
      simp only [if_true]
      exact execBlock_rename hinj t hq hin.2.1
    | false =>
      simp only [Bool.false_eq_true, if_false]
      exact execBlock_rename hinj e hq hin.2.2

theorem execBlock_rename {ρ : String → String} {N : String → Prop} (hinj : InjOn' ρ N) (b : List Stmt) {q q' : Path}
    (hq : PRen ρ N q q') (hin : blockIn N b) :
    MR (WR (PRen ρ N)) (execBlock b q) (execBlock (renameBlock ρ b) q') := by
  cases b with
  | nil =>
    simp only [renameBlock]
    rw [execBlock_nil, execBlock_nil]
    exact MR.pure (List.Forall₂.cons ⟨rfl, hq⟩ List.Forall₂.nil)
  | cons st rest =>
    simp only [blockIn] at hin
    simp only [renameBlock]
    rw [execBlock_cons, execBlock_cons]
    refine MR.bind (execStmt_rename hinj st hq hin.1) (fun d d' hd => ?_)
    exact bindW_MR hd (fun a a' ha => execBlock_rename hinj rest ha hin.2)
end

/-! ### whole programs -/

theorem iter_rename {ρ : String → String} {N : String → Prop} (hinj : InjOn' ρ N) (P : Program) (hP : progIn N P)
    {q q' : Path} (hq : PRen ρ N q q') : MR (WR (PRen ρ N)) (iter P q) (iter (renameProgram ρ P) q') :=
  iter_MR (P' := renameProgram ρ P) (evalCond_rename hq.2 P.guard hP.2.1) (execBlock_rename hinj P.body hq hP.2.2) hq

/-- **C20, runs.**  For every program whose names lie in `N`, every renaming `ρ` injective on `N`, every `n` and all
    lookup-equivalent initial stores: the un-merged runs of `P` and of `renameProgram ρ P` fail together or agree
    position by position — same weight, same atom table, lookup-equivalent stores. -/
theorem run_rename {ρ : String → String} {N : String → Prop} (hinj : InjOn' ρ N) (P : Program) (hP : progIn N P)
    {σ₀ σ₀' : Store} (hσ : Look ρ N σ₀ σ₀') (n : Nat) :
    MR (WR (PRen ρ N)) (run P false n σ₀) (run (renameProgram ρ P) false n σ₀') :=
  run_MR (P' := renameProgram ρ P) (execBlock_rename hinj P.init (q := ⟨σ₀, []⟩) (q' := ⟨σ₀', []⟩) ⟨rfl, hσ⟩ hP.1)
    (fun _ _ hq => iter_rename hinj P hP hq) n

theorem monoValue_cons (s : Store) (xe : String × Nat) (m : Mono) :
    monoValue s (xe :: m) = (do
      let acc ← monoValue s m
      match s.get? xe.1 with
      | some v => pure (MPoly.mul (MPoly.pow v xe.2) acc)
      | none => throw s!"unset:{xe.1}") := by
  simp only [monoValue, List.foldrM_cons]
  rfl

theorem monoValue_rename {ρ : String → String} {N : String → Prop} {s s' : Store} (h : Look ρ N s s') (m : Mono)
    (hm : monoIn N m) : MR Eq (monoValue s m) (monoValue s' (renameMono ρ m)) := by
  induction m with
  | nil => exact MR.refl
  | cons xe t ih =>
    simp only [renameMono, List.map_cons] at ih ⊢
    rw [monoValue_cons, monoValue_cons]
    refine MR.bind (ih (fun y hy => hm y (by simp [hy]))) (fun acc acc' hacc => ?_)
    subst hacc
    simp only [h xe.1 (hm xe (by simp))]
    cases s.get? xe.1 with
    | none => exact MR.throw _ _
    | some v => exact MR.refl

theorem pathE_rename {ρ : String → String} {N : String → Prop} {q q' : Path} (hq : PRen ρ N q q') (m : Mono)
    (hm : monoIn N m) : MR Eq (pathE m q) (pathE (renameMono ρ m) q') := by
  unfold pathE
  refine MR.bind (monoValue_rename hq.2 m hm) (fun v v' hv => ?_)
  subst hv
  rw [hq.1]
  exact MR.refl

open Polar.Validate in
/-- **C20, moments.**  For every program `P` with names in `N`, every renaming `ρ` injective on `N`, every monomial
    `M` over `N`, every `n` and all lookup-equivalent initial stores:
    E_{run (renameProgram ρ P) n σ₀'}(renameMono ρ M) = E_{run P n σ₀}(M) — both undefined, or both defined and equal. -/
theorem moment_rename {ρ : String → String} {N : String → Prop} (hinj : InjOn' ρ N) (P : Program) (hP : progIn N P)
    {σ₀ σ₀' : Store} (hσ : Look ρ N σ₀ σ₀') (m : Mono) (hm : monoIn N m) (n : Nat) :
    MR Eq (momentU P m n σ₀) (momentU (renameProgram ρ P) (renameMono ρ m) n σ₀') :=
  momentU_MR (run_rename hinj P hP hσ n) (fun _ _ hq => pathE_rename hq m hm)

open Polar.Validate in
/-- `moment_rename` with the renamed initial store, as an equivalence of results -/
theorem moment_rename_renameStore {ρ : String → String} {N : String → Prop} (hinj : InjOn' ρ N) (P : Program)
    (hP : progIn N P) (σ₀ : Store) (hσ : ∀ y, σ₀.get? y ≠ none → N y) (m : Mono) (hm : monoIn N m) (n : Nat)
    (a : Rat) :
    momentU (renameProgram ρ P) (renameMono ρ m) n (renameStore ρ σ₀) = .ok a ↔ momentU P m n σ₀ = .ok a :=
  ((moment_rename hinj P hP (look_renameStore hinj σ₀ hσ) m hm n).eq_ok_iff a).symm

theorem renameMono_id_on {ρ : String → String} {V : String → Prop} (hid : ∀ x, V x → ρ x = x) (m : Mono)
    (hm : monoIn V m) : renameMono ρ m = m := by
  induction m with
  | nil => rfl
  | cons xe t ih =>
    simp only [renameMono, List.map_cons] at ih ⊢
    rw [ih (fun y hy => hm y (by simp [hy])), hid xe.1 (hm xe (by simp))]

/-- a store that defines source variables only is lookup-equivalent to itself under a renaming of the auxiliaries -/
theorem look_self {ρ : String → String} {N V : String → Prop} (hinj : InjOn' ρ N) (hVN : ∀ x, V x → N x)
    (hid : ∀ x, V x → ρ x = x) (σ₀ : Store) (hσ : ∀ x, σ₀.get? x ≠ none → V x) : Look ρ N σ₀ σ₀ := by
  intro x hx
  by_cases hv : V x
  · rw [hid x hv]
  · have h1 : σ₀.get? x = none := by
      by_contra hne
      exact hv (hσ x hne)
    have h2 : σ₀.get? (ρ x) = none := by
      by_contra hne
      have hv' := hσ _ hne
      have : ρ x = x := hinj (ρ x) x (hVN _ hv') hx (hid _ hv')
      exact hv (this ▸ hv')
    rw [h1, h2]

open Polar.Validate in
/-- **C20, "equal up to the names of generated auxiliary symbols".**  Let `V` be the source variables, `N ⊇ V` all
    names of `P` (source variables and generated auxiliaries), and `ρ` any renaming that is injective on `N` and the
    identity on `V` (e.g. the auxiliaries `_t3, _t4` of one analysis against `_t7, _t8` of a later analysis in the same
    process).  Then from the same initial store (defining source variables only) every monomial over the source
    variables has the same expectation at every `n` in `P` and in `renameProgram ρ P`. -/
theorem aux_names_irrelevant {ρ : String → String} {N V : String → Prop} (hinj : InjOn' ρ N)
    (hVN : ∀ x, V x → N x) (hid : ∀ x, V x → ρ x = x) (P : Program) (hP : progIn N P)
    (σ₀ : Store) (hσ : ∀ x, σ₀.get? x ≠ none → V x) (m : Mono) (hm : monoIn V m) (n : Nat) :
    MR Eq (momentU P m n σ₀) (momentU (renameProgram ρ P) m n σ₀) := by
  have h := moment_rename hinj P hP (look_self hinj hVN hid σ₀ hσ) m (fun xe hxe => hVN _ (hm xe hxe)) n
  rwa [renameMono_id_on hid m hm] at h

open Polar.Validate in
/-- the same as an equivalence of results -/
theorem aux_names_irrelevant_ok {ρ : String → String} {N V : String → Prop} (hinj : InjOn' ρ N)
    (hVN : ∀ x, V x → N x) (hid : ∀ x, V x → ρ x = x) (P : Program) (hP : progIn N P)
    (σ₀ : Store) (hσ : ∀ x, σ₀.get? x ≠ none → V x) (m : Mono) (hm : monoIn V m) (n : Nat) (a : Rat) :
    momentU P m n σ₀ = .ok a ↔ momentU (renameProgram ρ P) m n σ₀ = .ok a :=
  (aux_names_irrelevant hinj hVN hid P hP σ₀ hσ m hm n).eq_ok_iff a

open Polar.Validate in
/-- two analyses of the same program with different auxiliary names (`ρ₁`, `ρ₂`) agree on all source moments -/
theorem aux_names_irrelevant₂ {ρ₁ ρ₂ : String → String} {N V : String → Prop} (hinj₁ : InjOn' ρ₁ N)
    (hinj₂ : InjOn' ρ₂ N) (hVN : ∀ x, V x → N x) (hid₁ : ∀ x, V x → ρ₁ x = x) (hid₂ : ∀ x, V x → ρ₂ x = x)
    (P : Program) (hP : progIn N P) (σ₀ : Store) (hσ : ∀ x, σ₀.get? x ≠ none → V x) (m : Mono) (hm : monoIn V m)
    (n : Nat) : MR Eq (momentU (renameProgram ρ₁ P) m n σ₀) (momentU (renameProgram ρ₂ P) m n σ₀) :=
  MR.trans (MR.symm (aux_names_irrelevant hinj₁ hVN hid₁ P hP σ₀ hσ m hm n))
    (aux_names_irrelevant hinj₂ hVN hid₂ P hP σ₀ hσ m hm n) (fun _ _ _ h1 h2 => h1.symm.trans h2)

/-! ### non-vacuity -/

/-- a loop whose simultaneous assignment `x, y = y, x + y` was desugared through the auxiliaries `_t0`, `_t1`,
    with a Bernoulli draw, a guard and a continuous draw -/
def exP : Program :=
  { init := [.assign "x" (.expr (.num 1)) .tt "x", .assign "y" (.expr (.num 2)) .tt "y",
             .assign "f" (.expr (.num 0)) .tt "f", .assign "z" (.expr (.num 0)) .tt "z",
             .assign "w" (.expr (.num 5)) .tt "w"],
    guard := .cmp .eq (.var "f") (.num 0),
    body := [.assign "f" (.dist "Bernoulli" [.num (1/2)]) .tt "f",
             .assign "_t0" (.expr (.var "y")) .tt "_t0",
             .assign "_t1" (.expr (.add (.var "x") (.var "y"))) .tt "_t1",
             .assign "x" (.expr (.var "_t0")) .tt "x",
             .assign "y" (.expr (.var "_t1")) .tt "y",
             .ite (.cmp .eq (.var "f") (.num 1))
               [.assign "z" (.dist "Normal" [.var "x", .num 1]) .tt "z"]
               [.simult ["x", "w"] [.expr (.var "w"), .choice [(.var "x", .num (1/4)), (.num 0, .num (3/4))]]]] }

/-- a later analysis in the same process: the counter has advanced, the auxiliaries are `_t7`, `_t8` -/
def exρ (x : String) : String := if x = "_t0" then "_t7" else if x = "_t1" then "_t8" else x

def exN (x : String) : Prop := x ∈ ["x", "y", "z", "f", "w", "_t0", "_t1"]
def exV (x : String) : Prop := x ∈ ["x", "y", "z", "f", "w"]

theorem exρ_inj : InjOn' exρ exN := by
  intro x y hx hy
  simp only [exN, List.mem_cons, List.not_mem_nil, or_false] at hx hy
  rcases hx with rfl | rfl | rfl | rfl | rfl | rfl | rfl <;>
    rcases hy with rfl | rfl | rfl | rfl | rfl | rfl | rfl <;>
    first | (intro _; rfl) | (intro h; exact absurd h (by decide))

theorem exP_in : progIn exN exP := by
  simp [progIn, exP, blockIn, stmtIn, rhsIn, condIn, exprIn, exN]
  rintro a b (⟨rfl, rfl⟩ | ⟨rfl, rfl⟩) <;> simp [exprIn, exN]

def isOk {α : Type} : Except String α → Bool
  | .ok _ => true
  | .error _ => false

theorem isOk_iff {α : Type} {x : Except String α} : isOk x = true ↔ ∃ a, x = .ok a := by
  cases x <;> simp [isOk]

example : renameStmt exρ (.assign "_t0" (.expr (.var "y")) .tt "_t0") = .assign "_t7" (.expr (.var "y")) .tt "_t7" ∧
    renameStmt exρ (.assign "x" (.expr (.var "_t0")) .tt "x") = .assign "x" (.expr (.var "_t7")) .tt "x" := by
  constructor <;> rfl

open Polar.Validate in
set_option maxRecDepth 100000 in
/-- the hypotheses of `aux_names_irrelevant` are satisfiable, and the common value exists: E(x·y) after two
    iterations is defined in the original program, hence defined and equal in the renamed one -/
example : ∃ a, momentU exP [("x", 1), ("y", 1)] 2 [] = .ok a ∧
    momentU (renameProgram exρ exP) [("x", 1), ("y", 1)] 2 [] = .ok a := by
  have h1 : isOk (momentU exP [("x", 1), ("y", 1)] 2 []) = true := by decide +kernel
  obtain ⟨a, ha⟩ := isOk_iff.mp h1
  refine ⟨a, ha, ?_⟩
  refine (aux_names_irrelevant_ok (V := exV) exρ_inj ?_ ?_ exP exP_in [] ?_ _ ?_ 2 a).mp ha
  · intro x hx
    simp only [exV, List.mem_cons, List.not_mem_nil, or_false] at hx
    simp only [exN, List.mem_cons, List.not_mem_nil, or_false]
    tauto
  · intro x hx
    simp only [exV, List.mem_cons, List.not_mem_nil, or_false] at hx
    rcases hx with rfl | rfl | rfl | rfl | rfl <;> rfl
  · intro x hx
    exact absurd (store_get_nil x) hx
  · intro xe hxe
    simp only [List.mem_cons, List.not_mem_nil, or_false] at hxe
    rcases hxe with rfl | rfl <;> simp [exV]

set_option maxRecDepth 100000 in
/-- runs (the continuous draw included): the run of the original program exists, hence the run of the renamed
    program exists and agrees with it position by position -/
example : ∃ D D', run exP false 2 [] = .ok D ∧ run (renameProgram exρ exP) false 2 [] = .ok D' ∧
    WR (PRen exρ exN) D D' ∧ D.length = 7 := by
  have h1 : isOk (run exP false 2 []) = true := by decide +kernel
  obtain ⟨D, hD⟩ := isOk_iff.mp h1
  obtain ⟨D', hD', hrel⟩ := (run_rename exρ_inj exP exP_in (σ₀ := []) (σ₀' := []) (fun x _ => by
    rw [store_get_nil, store_get_nil]) 2).ok_left hD
  refine ⟨D, D', hD, hD', hrel, ?_⟩
  have h3 : (match run exP false 2 [] with | .ok d => d.length | .error _ => 0) = 7 := by decide +kernel
  rw [hD] at h3
  exact h3

/-- `moment_rename` with a renamed store: the monomial `_t0 · x` becomes `_t7 · x` -/
example : renameMono exρ [("_t0", 1), ("x", 2)] = [("_t7", 1), ("x", 2)] ∧
    Look exρ exN (Store.set [] "x" (MPoly.const 3)) (renameStore exρ (Store.set [] "x" (MPoly.const 3))) := by
  refine ⟨rfl, look_renameStore exρ_inj _ ?_⟩
  intro y hy
  rw [store_get_set] at hy
  by_cases h : y = "x"
  · simp [h, exN]
  · simp [h, store_get_nil] at hy

end Polar.Ren
