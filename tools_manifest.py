#!/usr/bin/env python3
"""Regenerates MANIFEST.json from the table below (keeps it schema-valid at all times)."""
import json
import os

BASE = "cd /repo && /venv/bin/python -m pytest -ra -q -p no:cacheprovider --timeout=900 --continue-on-collection-errors"

CHECKS = {
    "C01": dict(
        category="proof",
        text="Lean 4 theorems (C-finite extension: a closed form of known exponential-polynomial shape that agrees with A^n v on a window agrees for all n; Cayley-Hamilton annihilation of matrix sequences) plus an end-to-end correspondence run: the real pipeline's closed forms are evaluated exactly at n=0..N and compared with E(M) under the Lean reference semantics compiled from the same definitions. The theorem part is for all n; the tie to the code is differential and sampled.",
        design_ref="§4 C01, §2.2, §2.4",
        note="Trusted: Lean kernel + propext/Classical.choice/Quot.sound; Lean compiler for polar-model; harness generator/printer; sympy exact evaluation of Polar's own closed form at integers; textbook moment recurrences of continuous families. Modelled not verified: lark/symengine front end, sympy summation/roots.",
        technique="Lean 4 proof (C-finite validator theorems) + differential correspondence against Lean reference semantics",
    ),
}

REASON_PENDING = "check not built yet in this commit (planned, see DESIGN.md §4)"


def main():
    root = os.path.dirname(os.path.abspath(__file__))
    props = [json.loads(l)["id"] for l in open(os.path.join(root, "properties.jsonl")) if l.strip()]
    checks = []
    na = []
    for p in props:
        if p in CHECKS and os.path.exists(os.path.join(root, "harness", "checks", p.lower() + ".py")):
            c = CHECKS[p]
            checks.append({
                "property_id": p,
                "quick_cmd": f"./check {p} --tier quick",
                "thorough_cmd": f"./check {p} --tier thorough",
                "evidence_file": f"evidence/{p}.json",
                "replay_cmd_template": f"./check {p} --replay {{path}}",
                "engine": "lean-polar-model",
                "level_claimed": {"category": c["category"], "text": c["text"], "design_ref": c["design_ref"]},
                "level_note": c["note"],
                "technique": c["technique"],
            })
        else:
            na.append({"property_id": p, "reason": CHECKS.get(p, {}).get("na_reason", REASON_PENDING)})
    man = {
        "version": 1,
        "setup_cmd": "cd lean && lake build Polar PolarProofs polar-model",
        "hooks": {
            "guard": "PROBING_LAB_POLAR_VERIF",
            "enable": "no source hooks: the harness imports /repo's working tree in-process and wraps functions from outside; PROBING_LAB_POLAR_VERIF=1 is exported to the workers but nothing in /repo reads it",
            "baseline_off_cmd": BASE,
            "source_commits": [],
            "add_only": True,
        },
        "engines": [{
            "name": "lean-polar-model",
            "path": "lean/",
            "serves_properties": [c["property_id"] for c in checks],
            "kind_free_text": "Lean 4 model (Polar/*, Mathlib-free, compiled to polar-model) + theorems (PolarProofs/*) + Python correspondence harness (harness/*) driving the real code in-process",
        }],
        "checks": checks,
        "notes": "quick checks take 1-5 min each on 16 cores; exit 2 = the check itself failed (time-out, crash), never a verdict. Known findings: known_findings.json.",
        "not_applicable": na,
    }
    with open(os.path.join(root, "MANIFEST.json"), "w") as fh:
        json.dump(man, fh, indent=1)
    print(f"{len(checks)} checks, {len(na)} not claimed")


if __name__ == "__main__":
    main()
