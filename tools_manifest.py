#!/usr/bin/env python3
"""Regenerates MANIFEST.json from the table below (keeps it schema-valid at all times)."""
import json
import os

BASE = "cd /repo && /venv/bin/python -m pytest -ra -q -p no:cacheprovider --timeout=900 --continue-on-collection-errors"

CHECKS = {
    "C01": dict(
        category="proof",
        text="Lean 4 theorems (C-finite extension: a closed form of known exponential-polynomial shape that agrees with A^n v on a window agrees for all n; Cayley-Hamilton annihilation of matrix sequences) plus an end-to-end correspondence run: the real pipeline's closed forms are evaluated exactly at n=0..N and compared with E(M) under the Lean reference semantics compiled from the same definitions. The theorem part is for all n; the tie to the code is differential and sampled. As built (DESIGN §10.2): for every sampled program in the validator fragment the chain V1/V1C (types inductive) + V2/V2C (every recurrence equation a one-step identity on all typed states) + initial vector + C-finite window validator proves the reported closed form equal to the expectation for ALL n; the merged oracle run is tied to the un-merged semantics by Merge.moment_merged_eq_unmerged.",
        design_ref="§4 C01, §2.2, §2.4",
        note="Trusted: Lean kernel + propext/Classical.choice/Quot.sound; Lean compiler for polar-model; harness generator/printer; sympy exact evaluation of Polar's own closed form at integers; textbook moment recurrences of continuous families. Modelled not verified: lark/symengine front end, sympy summation/roots.",
        technique="Lean 4 proof: per-instance for-all-n chain (types inductive V1/V1C, one-step recurrences V2/V2C, C-finite window validator, merged run = un-merged run) + differential correspondence against the Lean reference semantics",
    ),
    "C08": dict(
        category="proof",
        text="Lean 4 theorems for every order k: the code's own get_moment formulas (Uniform closed form for a != b, Exponential, Categorical and DiscreteUniform loops, Bernoulli) equal the specification moments; the four DistTransformer rewritings (Normal incl. irrational sigma, Uniform, Laplace, Exponential) are identities of moment sequences (binomial transform satisfies the target recurrence / closed form); finite families' moments are proved to be the expectation under the finite law (Finset sum and Lebesgue integral against a weighted Dirac sum) and the k-th derivative at 0 of their mgf; Uniform, Exponential and Gamma specification moments are proved equal to the integral of x^k against the density. For Normal, Laplace and Beta the 'true moment' is the textbook recurrence (Laplace additionally proved equivalent to the mgf coefficient recurrence and the +-Exp mixture), cross-checked on every run against quadrature of the density, not proved; TruncNormal is compared with 60-digit quadrature only (relative tolerance 1e-30). The tie to the code is differential and sampled: get_moment/get_support/is_discrete/mgf/cf/mgf_exists_at of all ten classes on rational, float-literal and symbolic parameters, the real DistTransformer on small programs (structure of the rewritten pair = premises of the theorems) and E(y^k)(n) through the whole pipeline.",
        design_ref="§4 C08",
        note="Trusted: Lean kernel + propext/Classical.choice/Quot.sound; Lean compiler for polar-model; textbook recurrences for Normal/Laplace/Beta and mpmath quadrature (oracle); sympy diff/series/limit for derivatives of the code's mgf/cf at 0; harness parameter generator and canonicalisation. The defects found (F6, F40-F43) were repaired in /repo; the check excuses nothing. Note: TruncNormal moments are 50-digit decimals returned as rationals and still flagged exact (documented disclaimer).",
        technique="Lean 4 proof (moment-sequence identities, integral ties) + differential correspondence of the real distribution classes and DistTransformer against the Lean specification",
    ),
    "C12": dict(
        category="proof",
        text="PARTIAL. Lean 4 theorems about a hand-written model of simulation/simulator.py whose random sources are an explicit oracle tape: sim_eq_sem (for every program -- expression/choice/Bernoulli/Categorical/DiscreteUniform assignments, guarded assignments with default, if/elif/else, simultaneous assignment through the parser's temporaries, loop guard with stuttering -- every n and every initial state, the strict path enumeration of the model equals Polar.run of the reference semantics weight by weight and store by store whenever both return), simPaths_sound (every enumerated tape replays through the tape-driven interpreter to the listed state), simPaths_strict, sampler_params_agree / sampler_support_agree (the scipy call coded in each sample() is the documented parameterisation with the declared support, for every family; TruncNormal with sigma^2 != 0) and truncnormal_support (support exactly [a, b] for sigma > 0). Tie to the code (sampled, differential): the real Simulator(n).simulate / execute on the parsed un-normalised program with random.choices, random.choice and every scipy rvs scripted, ALL paths of seeded discrete programs (dyadic constants, n<=3 quick / 4 thorough, templates to n=7) enumerated; tapes, weights and final states equal the model's sim_paths, and the weighted states after every iteration equal the exact joint law (op dist) as exact rationals; the arguments actually passed to scipy equal samplerCall and are compared with samplerSpecCall; support membership of 2000 (quick) real samples under a fixed numpy seed; the CLI SimulationAction on scripted runs; ONE simulate call with 2 and 3 runs, all resolutions of the scripted sources enumerated: the joint law of the runs' initial and final states is the product law (programs with choices / Bernoulli / Categorical / DiscreteUniform draws in the initial section included); the scipy arguments of EVERY sampler call along 2-3 runs of programs whose distribution parameters change with the state (Normal, Uniform, Laplace, DistExp, Gamma, Beta, TruncNormal, Bernoulli) against samplerSpecCall on the current state. What the model cannot exhibit and is therefore NOT covered: IEEE rounding in arithmetic and in evaluate_cop on float states, the internals of scipy's and random's generators (their laws are taken from the documentation), EvaluationException timing on symbolic parameters; continuous draws are outside sim_eq_sem (sampler theorems only).",
        design_ref="§4 C12, §2.2, notes/C12.md",
        note="Trusted: Lean kernel + propext/Classical.choice/Quot.sound; Lean compiler for polar-model; harness generator/printer, dyadic rewriting of constants, scripted sources (probability of the i-th answer = w_i/sum(w) for random.choices, 1/len for random.choice, p/1-p for bernoulli.rvs); scipy.stats documentation of loc/scale/shape; exactness of double arithmetic on dyadic rationals within 53 bits. Findings F7 (TruncNormal.sample raw bounds) and F45 (simulated P(X >= c) lost the boundary X = c) were found by this check and are fixed in /repo; a recurrence is a VIOLATION.",
        technique="Lean 4 proof (simulator model = reference semantics by mutual induction; sampler parameterisations) + exhaustive path enumeration of the real simulator under scripted random sources against the Lean model and the exact law",
    ),
    "C16": dict(
        category="proof",
        text="Rational lists: Lean 4 theorems, no sampled step inside them: relation_iff_valuations (prod b_i^e_i = 1 iff all p-adic valuation sums vanish and the exponent sum over the negative bases is even); c16_code_correct: the algorithm AS CODED (model latticeAsCoded: is_trivially_empty shortcut, multiplicity/parity system in the order the code builds it, _integer_kernel = unimodular row reduction of [A^T | I] with the code's pivot rule, floor division, swap and row order) returns a Z-basis of the exponent lattice for every list of non-zero rationals (integerKernelAsCoded_isBasis incl. termination of the Euclid loop, isTriviallyEmpty_sound); c16_rational / intKernel_isBasis (an independent verified basis) and c16_check_iff (the executable verdicts relationHolds / independent / inIntSpan hold iff the proposed rows are a Z-basis - the judge is exact). The tie to the code is sampled: ExponentLattice(bs).compute_basis() of the working tree runs on corpus + seeded lists (repetitions, units, shared primes with different multiplicities, negatives, reciprocals, k <= 6); every answer must equal the model's rows one for one and is judged by the verified procedures. General (Kauers) path, constructed-relation lists: bases sign*g^a*h^b for multiplicatively independent generators with exponents up to +-300 (non-integer bases such as 1/2^100 next to sqrt 2); the lattice is the integer kernel of the exponent rows by construction and the code's rows are judged exactly (soundness and completeness, no enumeration bound) by the verified lattice_check on the rational shadow list. Other irrational/complex lists are a TEST, not a proof: soundness of each row is decided exactly (pair arithmetic in Q(sqrt D), proved exact by relationHoldsQuad_iff; sympy minimal_polynomial for mixed fields), completeness only for exponent vectors inside a box |e_i| <= 4..8; LLL and Faccin's bound are not modelled.",
        design_ref="§4 C16, §2.5, notes/C16.md",
        note="Trusted: Lean kernel + propext/Classical.choice/Quot.sound; Lean compiler for polar-model; Mathlib's padicValRat/zpow; harness generator and conversion of \"p/q\" strings to sympy numbers; sympy factorint (the model has its own certified trial division); for mixed-field lists sympy minimal_polynomial and 80-digit evalf. The model keeps only the I-part of the rows of [A^T | I] and reads the A^T-entries as dot products (equal by linearity); it is tied to the code differentially (identical rows on every sampled list). F4 / F4b are repaired in /repo (526383e, 41c095b); their inputs are regression cases and a recurrence is a VIOLATION. Exceptions of the Kauers path (TypeError in faccin_bound / rounding) are counted, not judged.",
        technique="Lean 4 proof (valuation characterisation, correctness of the coded integer-kernel algorithm, exact checker) + row-for-row differential correspondence of the real ExponentLattice against the Lean model; bounded enumeration test for algebraic bases",
    ),
    "C11": dict(
        category="proof",
        text="Lean 4 theorems for every finitely supported law and every order, about a hand-written model of utils/statistics.py and of the two tail-bound formulas of cli/actions/goals_action.py: central_correct (raw_moments_to_centrals = E(X-EX)^k for all k >= 1; binomial theorem for k >= 2, the coded special case 0 at k = 1 — finding F8, repaired in /repo d65f6a5, kept as the regression witness central_old_code_counterexample), cumulant_correct / cumulant_recursion_correct (raw_moments_to_cumulants satisfies the moment-cumulant recursion at every order) with cumulant_is_log_mgf (that recursion is M' = K'M in Q[[t]], i.e. K = log M) and kappa_1..4 corollaries, markov / markov_min (every listed bound E(M^k)/a^k and the printed minimum dominate P(M >= a) for M >= 0, a > 0), second_moment_lower ((EM-a)^2/E(M-a)^2 <= P(M > a) when M - a >= 0, Cauchy-Schwarz). Tie to the code is differential and sampled: the two Python functions on random rational/symbolic raw-moment vectors of order <= 10 versus the compiled model and, on moments of random finite laws, versus the Lean specification; generated discrete programs through the real GoalsAction handlers (argparse Namespace, goal strings ck/kk/P(.>=a)<=?/P(.>a)>=?) compared at n = 0..4 with the exact law of the Lean reference semantics. Expansions: probHermite_eq_heSpec (prob_hermite_poly as coded is He_n, every n), gaussInt_heSpec_succ and gc_integrates_to_one (the Gram-Charlier polynomial factor as modelled has Gaussian integral 1 for every cumulant vector with k2 != 0) are proved about the model; 'reproduces the first k raw moments' and 'Cornish-Fisher is the published one' are a finite table test only (rational cumulant vectors of length <= 6, <= 6 indeterminate cumulants), not a proof.",
        design_ref="§4 C11, notes/C11.md",
        note="Trusted: Lean kernel + propext/Classical.choice/Quot.sound; Lean compiler for polar-model; harness generator/printer; sympy exact evaluation of Polar's closed forms at integers and parsing of the printed --at_n lines; for the expansions sympy polynomial arithmetic, the Gaussian raw-moment recursion and the published Cornish-Fisher table typed into harness/tasks/c11.py. Modelled not verified: the pipeline that produces the raw moments (C01), sympy expand/simplify. Known finding F8b (0/0 lower bound simplified to 1); F8 (c1 = mean) is fixed.",
        technique="Lean 4 proof (binomial theorem, moment-cumulant recursion / power-series logarithmic derivative, Markov, Cauchy-Schwarz second-moment bound) + differential correspondence of the real functions and goal handlers against the Lean model and specification; finite table test for the expansions",
    ),
    "C13": dict(
        category="proof",
        text="partial. Proved in Lean 4 (no sorry, axioms propext/Classical.choice/Quot.sound): the product-to-sum identity sin^b z cos^c z = (i^b 2^(b+c))^-1 * sum C(c,k1) C(b,k2) (-1)^(b-k2) e^{i(2(k1+k2)-b-c)z} stated with the coefficient table of the executable model; for every finitely supported (signed) law the formula coded in get_trig_moment (table, division by I^(a+b) 2^(b+c), a-th derivative of the characteristic function, real part) equals sum p_j x_j^a sin^b x_j cos^c x_j (also as coded since c7c1f2a, with the frequency-0 terms taken from the raw moment i^a E[X^a]), and the formula of get_exp_moment equals the a-th derivative of the mgf; the guard of get_func_moment (coded = documented since /repo e78913c: Sin/Cos together with Exp is rejected, every returned value is the true mixed moment); the models of mgf_exists_at for Exponential/Gamma/Laplace decide integrability of e^{tx} f(x). Tied to the code by an exact structural diff: the real get_func_moment runs on a stub distribution with uninterpreted hermitian transforms and the coefficient table of its result is compared with polar-model for all exponent triples up to the tier's bound. NOT proved: the values of the transcendental expectations themselves (closed forms of the transforms of each family, sympy's differentiation/evaluation, rounding to ~20 digits, the trigger/context glue in whole programs); these are compared numerically with mpmath quadrature of the defining integrals and with an independent interpreter on whole programs, with explicit tolerances - evidence, not proof.",
        design_ref="§4 C13; notes/C13.md",
        note="Trusted: Lean kernel + propext/Classical.choice/Quot.sound; Lean compiler for polar-model; the stub distribution and sympy's expand used to read the table off the result; mpmath quadrature (two subdivisions, 42 digits) of textbook densities; harness/c13_lib.py (mini-parser, interpreter, factorisation over independent draws); passage from finitely supported laws to laws with a density is paper mathematics. Refusals (AssertionError for DiscreteUniform with Id >= 1 and some Beta cases, NotImplementedError for Categorical) are counted, not violations. Known finding: F132 (its patch would need an edit of a benchmark's #test lines; see known_findings.json). F5, F131, F133 are fixed in /repo (e78913c, 2697d27, c7c1f2a).",
        technique="Lean 4 proof of the combination formulas + exact structural correspondence on a stub distribution + numeric oracle (quadrature, independent interpreter)",
    ),
    "C15": dict(
        category="proof",
        text="partial. Proved in Lean 4 (no sorry; axioms propext/Classical.choice/Quot.sound) about a hand-written model of /repo/bayesnet: the flat index table[row + i*rows] of the `table` notation addresses P(child = i | row-th parent combination in itertools.product order); whatever mix of default/table/entries is given, an accepted CPT - and an accepted file (assembleNet) - has exactly one row per parent combination, each of the child's domain size and summing to 1 within the tolerance; the table, the per-entry (any order, any redundancy) and the default+entries notations of one conditional probability function import the same table; Kahn's sort as coded returns a permutation with parents first whenever its final assertion holds (topoOrder_isTopo); for a well-formed network (rows sum to exactly 1) on which the generator does not fail, one iteration of the generated if/elif/else program started in ANY state ends in a full assignment a with probability prod CPT entries (pointwise) and E g = sum_a joint(a) g(a) for every g of the network variables, hence the joint table sums to 1; the ratio E((x*ind)^k)/E(ind) the exact-inference query asks for equals E(X^k | evidence) for every k >= 0 (for k = 0 the repaired code asks E(ind) as numerator; the model follows it); E(count)(n) of the sampling-time program equals the recurrence countSeq, countSeq q n = (1-(1-q)^(n+1))/q for q != 0 and tends to 1/q for 0 < q <= 1. Tied to the code differentially on seeded BIF files (valid / rows-within-tolerance / reserved names / single and double structural faults / syntax faults) and the repository's .bif files: BifParser().parse_file vs assembleNet (tables, parents, class of the first error); the text of CodeGenerator.generate_code read by the shared reference semantics vs the joint table; the real CLI action (--exact_inference, --sample_time_until) vs enumeration (final value and per-iteration moments n = 0..3). NOT proved: the lark grammar, the random digits appended on name collisions (checked by rule), Python float summation at the tolerance edge (generator keeps 1e-9 away), and Polar's analysis pipeline itself (C01).",
        design_ref="§4 C15; notes/C15.md",
        note="Trusted: Lean kernel + propext/Classical.choice/Quot.sound; Lean compiler for polar-model; harness/c15gen.py (BIF generator, printer and reader, reader of the generated Polar text), exact-decimal reading of printed floats, sympy exact evaluation of Polar's closed forms at integers, Polar/Sem.lean reference semantics for the law of the generated text. Time-outs of Polar's recurrence builder on networks with many 4-valued parents are counted, never violations. No known finding left: F30 (sampling-time limit not taken), F31 (sanitised names that are reserved words), F32 (target power 0), F33/F34 (remainder probability / probability check in binary floating point) were found by this check and are fixed in /repo; a recurrence is a violation (no attribution function remains).",
        technique="Lean 4 proof (mixed-radix index, assembly invariants, invariant proof of Kahn's algorithm, path-probability induction along a topological order, partition of outcome lists, geometric sum and limit) + differential correspondence of parser, code generator and both queries against the Lean model and the enumerated joint law",
    ),
}

CHECKS.update({
    "C02": dict(
        category="proof",
        text="Per-instance translation validation judged by the Lean reference semantics: the real normalize_program is run with every Transformer.execute wrapped; the program after each pass is converted to the model AST and executed by the compiled Lean semantics; obligation per snapshot: same joint law over the source variables at n=0..3 (discrete programs) or same mixed moments up to degree 3, for two different initial values of all auxiliary variables (no information carried across iterations), for all four settings of cond2arithm / transform_categoricals. Universal pass theorems are not yet proved: the level is partial - the judge (semantics) is Lean, the quantifier over programs is sampled. As built (DESIGN §10.2): consecutive snapshots and parsed->final additionally go through the verified one-step bisimulation validator V3 / V3C (checkSameStep_sound, V3C.checkSameStepC_sound): acceptance proves the same law over the source variables for ALL n; a V3C 'not same' (incomplete validator) is decided by exact moments.",
        design_ref="§4 C02",
        note="Trusted: Lean kernel/compiler, the conversion of Polar's Program objects to the model AST (harness/tasks/convert.py). Not modelled: Bernoulli abstraction of non-finite conditions, Sin/Cos/Exp assignments.",
        technique="Lean 4 proof: verified one-step bisimulation validator (V3/V3C soundness theorems, all n) applied to every real normalisation pass + differential correspondence against the Lean reference semantics",
    ),
    "C03": dict(
        category="proof",
        text="For every equation of every recurrence system the real RecBuilder produces on sampled programs: E(M)(n+1) = sum c_i E(M_i)(n) + c at n=0..N-1 and init = E(M)(0), expectations under the Lean reference semantics of the normalised program; closure of the system and agreement of the matrix/vector handed to the solvers with the dictionary are checked structurally. Partial: the universal theorem c03_one_step is not yet proved for the model of the builder. As built (DESIGN §10.2): every equation additionally goes through the verified validator V2 / V2C (checkOneStep_sound, checkOneStepC_sound, recurrence_holds_forall_n): acceptance proves the one-step identity on every typed state, hence the recurrence for ALL n.",
        design_ref="§4 C03",
        note="Trusted: Lean kernel/compiler (Polar/Sem.lean), AST conversion, sympy Rational arithmetic for coefficient values at the parameter point.",
        technique="Lean 4 proof: verified one-step recurrence validator (V2/V2C soundness, recurrence_holds_forall_n) applied to every equation of the real RecBuilder + differential correspondence against the Lean reference semantics",
    ),
    "C04": dict(
        category="proof",
        text="Every closed form returned by the real solvers on generated systems is decided for ALL n by a verified validator: Lean theorems (cfinite_ext: Cayley-Hamilton + annihilators of exponential polynomials; cfiniteCheck_sound / cfiniteCheckQD_sound_alg / cfiniteCheckValues_sound for the executable window check over Q, Q(sqrt D), and supplied values) turn agreement on a window of length d + sum(deg+1) after the listed special cases into agreement for every n; special cases are compared with exact matrix powers. Both strategies, all Jordan structures incl. nilpotent, repeated, irrational, complex roots, symbolic entries at a point.",
        design_ref="§4 C04, §2.4",
        note="Trusted: Lean kernel; extraction of the term shape from sympy's expression; sympy exact evaluation on the window when bases are outside Q and Q(sqrt D); Schwartz-Zippel for symbolic entries. Rounded (numeric-root) results: flag logic + tolerance comparison only (partial).",
        technique="Lean 4 proof: verified C-finite validator applied per instance (proof-carrying check), theorem cfiniteCheck_sound",
    ),
    "C05": dict(
        category="proof",
        text="program.typedefs after the real normalize_program (for fixed-point budgets 0,1,3,100) versus the values every variable of the normalised program takes at iteration boundaries n=0..N (frozen iterations included) under the Lean reference semantics; after single-assignment renaming these are all values it ever holds. Partial: the universal theorem c05_types_inductive (a post-fixed point of the abstract transformer is an invariant) is not yet proved.",
        design_ref="§4 C05",
        note="Trusted: Lean kernel/compiler, AST conversion. User-declared types are hypotheses.",
        technique="Lean reference semantics as reachability oracle (differential correspondence)",
    ),
})

CHECKS.update({
    "C17": dict(
        category="proof",
        text="Each sampled program is analysed by the real pipeline under nine settings (cond2arithm, categorical expansion, both, forced cyclic solver, declared types with inference disabled, fixed-point budget 1, numeric_croots, numeric_roots); every goal that succeeds under a setting is compared at n=0..5 with the exact expectation of the Lean reference semantics (so all succeeding settings agree pairwise); results flagged exact must be exactly equal, numeric-root results must be flagged rounded and lie within a tolerance. The for-all-n extension of a sampled instance is C04's verified validator. Partial: no universal theorem about the option code paths yet; the precision clause is a tolerance test.",
        design_ref="§4 C17",
        note="Trusted: Lean kernel/compiler (reference semantics), sympy exact evaluation of closed forms. 'One side refuses' is recorded, not judged.",
        technique="Lean 4 proof (arithmetic encoding of conditions = guarded form on well-typed states, categorical expansion = choice, C-finite extension) + differential correspondence of the option matrix against the Lean reference semantics",
    ),
})

CHECKS.update({
    "C09": dict(
        category="proof",
        text="For generated guarded loops the real get_moment_given_termination is compared at every n <= 6 with the exact conditional expectation E(M | T <= n) = E(M 1[not G])(n) / P(not G)(n) computed by the Lean reference semantics; the value reported for --after_loop is compared with the limit that the Lean rule Polar.Limit.ratioLimit derives from the term shapes of Polar's numerator and denominator closed forms (tied to the exact sequences at n <= 6). Lean theorems: CFin.tendsto_expSeq_zero / tendsto_termSum_zero (terms with |base| < 1 vanish). Partial: the correctness theorem of ratioLimit and c09_conditional are not yet proved; raw moments only so far.",
        design_ref="§4 C09",
        note="Trusted: Lean kernel/compiler, term-shape extraction; the for-all-n validity of numerator/denominator closed forms is C01/C04's subject. Known finding F15 (sequence shifted by one) is attributed by the exact shifted identity.",
        technique="Lean reference semantics as conditional-expectation oracle + Lean limit rule (differential correspondence)",
    ),
    "C19": dict(
        category="proof",
        text="Every generated AST is printed in 8 spellings (trivia, redundant parentheses, decimals, explicit last probability, temporaries for simultaneous assignment, nested else-if, all combined) plus arithmetic-precedence stress programs; the real parser's result for each spelling is executed by the Lean reference semantics and must have the law of the AST it was printed from, and the closed forms of the full pipeline must equal the exact expectations for each spelling; texts made ill-formed by 13 kinds of single edits and choices with invalid probability vectors must be rejected at the parse stage. Partial: the lark/symengine front end is tied differentially only; no model parser, so 'outside the grammar' is by construction of the edits.",
        design_ref="§4 C19",
        note="Trusted: Lean kernel/compiler (reference semantics), the harness pretty-printer.",
        technique="Lean 4 proof (respelling theorems: temporaries for simultaneous assignment, explicit last probability, elif chains — same moments for all n) + differential correspondence of the real parser against the Lean reference semantics",
    ),
})

CHECKS.update({
    "C06": dict(
        category="proof",
        text="Verified validator, decided per instance for ALL n: every polynomial p of the basis returned by the real InvariantIdeal.compute_basis() (called directly on seeded tuples of exponential-polynomial closed forms over base sets with multiplicative relations, and through GoalsAction/--invariants in-process on README examples, benchmark files and generated programs with E/ck/kk goals) is handed to polar-model invariant_check: Lean builds the exponential polynomial p(f_1(n),..,f_k(n)) from the exact term lists (coef, deg, base over Q or Q(sqrt D) pairs) of the goal closed forms (mulTerms/powTerms/substPoly, like terms merged), computes its formal shape and tests it on the window of that shape starting after the special cases Polar lists. Lean theorems (no sampled step inside): evalK_substPoly (the term list denotes p at the goal values, i.e. MvPolynomial.aeval), evalK_vanish / checkInvariant_sound (no failing index on the window implies p(f(n)) = 0 for every n >= n0; via CFin.expPoly_vanish), checkInvariant_sound_rat, checkInvariantQD_sound_alg (pairs read in any Q-algebra with a square root of D: R, C), checkInvariant_complete (a reported failing n is genuine), c06_ideal_sound (generators vanish under the evaluation homomorphism => the whole ideal does: reduces the Groebner/elimination step to its generators), latticeGen_vanishes_iff / latticeGenInv_vanishes (lattice binomials, also in the inverse-symbol form the code builds, vanish under b_i -> r_i^n iff prod r_i^e_i = 1: soundness reduces to C16). The closed forms are tied to the loop by cfinite_check against Polar's own linear system (all n) and, for generated programs, by the Lean reference semantics (n <= 5). The Groebner step itself is modelled, not verified: the guarantee is for each sampled output, not for the algorithm.",
        design_ref="§4 C06, §2.4, notes/C0607.md",
        note="Trusted: Lean kernel + propext/Classical.choice/Quot.sound; Lean compiler for polar-model; harness extraction of term lists from sympy closed forms (own term_shape; guarded by exact re-evaluation against sympy at three points per goal); sympy Poly conversion of the basis; parsing of the printed 'Invariants' section (compared with the computed basis). Closed forms with symbolic parameters are checked at one rational point; closed forms with more than one radicand are counted as unsupported. Known finding F4-C06 (false invariants caused by the truncated exponent lattice, e.g. x = 4^n, y = 8^n -> x - y) is attributed by the C16 signature + an exact check of the lattice rows + a passing re-run with the in-memory integer-kernel repair.",
        technique="Lean 4 proof of a window validator for polynomial invariants of C-finite sequences + per-instance validation of the real InvariantIdeal / --invariants output",
    ),
    "C07": dict(
        category="proof",
        text="Proof of the validator; the property itself is decided per instance and up to total degree k (k = max(3, max degree in the reported basis), +2 thorough; recorded per instance) by exact linear algebra inside Lean. polar-model relations_check enumerates all monomials of degree <= k in the goals, evaluates them exactly on the window of the union of their formal shapes (one row per window point and rational coordinate), and checks certificates proposed by the harness: a kernel basis B with an identity block on the free columns and an invertible pivot minor (Lean inverts it and verifies the product), and for each b in B cofactors w.r.t. the basis reported by the real InvariantIdeal (sympy reduced). Lean theorems: checkKernel_sound (B lies in, spans and is independent in ker M), checkMember_sound (polynomial identity => membership in Ideal.span, MPoly -> MvPolynomial), relations_in_kernel (every relation of degree <= k that holds for all n >= n0 is a kernel vector), c07_validator_sound (accepted => every such relation lies in the ideal of the reported basis), c07_no_invariants (empty basis accepted => no non-zero relation of degree <= k). A kernel vector without accepted cofactors is validated as a genuine relation for all n by invariant_check and reported as the witness (vanishes on the sequences, not in the reported ideal; negative membership by a sympy Groebner basis). Polar's Groebner/elimination step is modelled, not verified; completeness beyond degree k is not decided.",
        design_ref="§4 C07, §2.5, notes/C0607.md",
        note="Trusted: as C06, plus sympy's Groebner basis for the NEGATIVE membership of a witness (positive memberships are Lean-certified; 'member by Groebner only' is counted separately). Instances with irrational basis coefficients, symbolic parameters, more than 60/130 monomials or windows above 160/400 points are counted as skipped, not decided. Known finding F4-C07 (relations lost through the truncated exponent lattice) attributed as in C06.",
        technique="Lean 4 proof of kernel / ideal-membership certificate checkers + per-instance certification that the degree-<=k relation space of the goal sequences lies in the reported ideal",
    ),
})

CHECKS.update({
    "C10": dict(
        category="proof",
        text="For generated parametric programs both methods of the real tool (differentiating the closed form; DiffRecBuilder's sensitivity recurrences) are evaluated at n=0..3 and compared with the exact derivative d/dp E(M)(n) at the parameter point. The exact derivative comes from the Lean reference semantics: E(M)(n) is a polynomial in p; it is evaluated exactly at 13 parameter values, the degree bound 10 is verified by two spare points, and the derivative of the interpolating polynomial is taken. Partial: the theorems deriv_of_linear_rec / dependentVars_sound of the design are not yet proved. As built (DESIGN §10.2): the delta-rows of the real DiffRecBuilder system are compared symbolically with the product rule applied to RecBuilder's rows, pruned terms are justified, and the reported closed form is validated against the augmented linear system by the window validator: with Sens.sens_pruned_sound / sens_unique the sensitivity is proved for ALL n per instance.",
        design_ref="§4 C10",
        note="Trusted: Lean kernel/compiler (reference semantics), exact Lagrange interpolation in the harness.",
        technique="Lean 4 proof (solution of the differentiated recurrence system is the parameter derivative for all n; pruned system sound under closure hypotheses checked per instance; window validator) + differential correspondence with an exact derivative oracle",
    ),
    "C18": dict(
        category="proof",
        text="Documented-class generator stream (README restrictions only). Safety half: every accepted program's closed forms equal the exact expectations of the Lean reference semantics at n=0..5 and refusals are exceptions. Liveness half: a refusal of a documented-class program is a violation unless attributed to the recorded finding F18 (finite type not inferred for a variable bounded only through its branch conditions), attributed by error call site AND by the in-memory repair 'declare the types' making the same program accepted and correct. Partial: in-class membership is by construction of the generator; termination of the monomial worklist is measured, not proved. PARTIAL: the Lean side contributes the reference semantics (with the theorems about it: merged run = un-merged run, respelling and renaming invariance) as the oracle of the safety half; membership of the documented class is the generator's construction and the acceptance (liveness) half is decided by running the real code on the stream, not by a theorem — no executable model can state 'Polar accepts' without being Polar.",
        design_ref="§4 C18",
        note="Trusted: Lean kernel/compiler, the generator's implementation of the README restrictions.",
        technique="differential correspondence on a documented-class generator stream against a Lean reference semantics",
    ),
    "C20": dict(
        category="proof",
        text="The same jobs (program, goals, settings) are run each alone in a fresh process, and all in one process in random orders with repetitions and goal permutations, under several PYTHONHASHSEED values; canonical results (exact values of every goal, exactness flags, inferred types up to generated names, error outcomes) must coincide. Partial by nature: CPython hashing, lru_cache internals and object identity are runtime behaviour no executable model exhibits; the state-machine theorems of the design (alpha-independence of the name counter, memo transparency) are not yet proved. As built (DESIGN §10.2): the normalised programs of the two histories are compared up to auxiliary names; equality gives equal source moments for ALL n by Ren.aux_names_irrelevant.",
        design_ref="§4 C20",
        note="Trusted: canonicalisation of generated names (harness/tasks/session.py).",
        technique="Lean 4 proof (injective renaming of auxiliary names leaves all source moments unchanged for all n; applied per instance to the normalised programs of the two histories) + history / hash-seed differential testing of the real code",
    ),
})

REASON_PENDING = "check not built yet in this commit (planned, see DESIGN.md §4)"


CHECKS.update({
    "C14": dict(
        category="proof",
        text="partial (validator proved, instances validated; not an algorithm proof). Proved in Lean 4 (no sorry; axioms propext/Classical.choice/Quot.sound): for the polynomial fragment of the loop language (unconditional polynomial assignments, probabilistic choice with polynomial weights, draws with constant parameters entering through their specification moments; `while true`) the moment-recurrence operator oneStepPoly (backward substitution) is the conditional expectation of the weighted-outcome semantics (oneStep_sound, via eval_add/eval_mul/eval_subst/eval_normalize proved for the executable polynomials of Polar/Poly.lean); c14_any_solution_ok: ANY Q, k, R passing the decidable polynomial identity oneStepPoly(Q) = k*Q + R satisfy E(Q)(n+1) = k E(Q)(n) + E(R)(n) for all n and all initial states - the nonlinsolve/linsolve search is modelled as 'any solution', completeness is not claimed; c14_invariant_sound / c14_summation_as_coded: the summation formula of solve_rec_by_summing over any commutative ring; system_sound + synth_closed_form_sound: a list of polynomials closed under the operator with matrix A has moment vector A^n v, and an exponential polynomial accepted by cfiniteCheck against that system equals E(Q(state_n)) for EVERY n; c14_loop_equiv: equal closure matrices and initial vectors give equal moment sequences of source and synthesised loop; two counterexample theorems for the recorded findings. Tie to the code is differential and sampled: the real UnsolvInvSynthesizer.synth_inv (k = 1 and symbolic k, the two calls of the CLI action) and SolvLoopSynthesizer.synth_loop run on the 9 suite files, the /repo/benchmarks loops with defective variables and seeded generated loops with one non-linear cycle (9 families: choice, Bernoulli coefficients, random-walk/Normal effective variables, parameters, symbolic initial values); every returned (Q, f) is compared with E(Q(state_n)), n <= 5, under the Lean reference semantics of the source program at a seeded rational point and, with the solver's own k and R captured at get_invariants, certified for all n by op synth_check; every synthesised loop is executed under the reference semantics and compared with the source (retained variables, fresh variable; all degree-2 monomials when the source is deterministic) and certified by op synth_loop_check. Programs with `if` are certified through the one-step polynomial computed by the reference semantics on a symbolic store (not covered by oneStep_sound); the agreement of that computation with oneStepPoly is measured on every fragment instance.",
        design_ref="§4 C14, §2.4; notes/C14.md",
        note="Trusted: Lean kernel + propext/Classical.choice/Quot.sound; Lean compiler for polar-model; Polar/Sem.lean as oracle and its run-time (not proved) agreement with the fragment semantics of Polar/Synth.lean; harness generator/printer and conversion of Polar's parsed Program objects; sympy exact evaluation of returned closed forms at integers and term-shape extraction; for continuous draws the moment-transfer argument of DESIGN 2.2. Values and certificates are at one seeded rational point of initial values / parameters / free coefficients per solution. A failed certificate next to exact agreement on the window is counted as inconclusive (the identity is for all pre-states, Polar may use finite-type facts). Known findings F140 (Piecewise initial-value case stripped by solve_rec_by_summing) and F141 (synthesised loop squares the mean of random effective variables) are attributed by an in-memory repair resp. the exact signature of the Lean loop certificate.",
        technique="Lean 4 proof (expectation transformer = backward substitution; certificate checkers for invariants, closed systems and loop equivalence; C-finite window extension) + differential correspondence of the real synthesisers against the Lean reference semantics",
    ),
})


def main():
    root = os.path.dirname(os.path.abspath(__file__))
    props = [json.loads(l)["id"] for l in open(os.path.join(root, "properties.jsonl")) if l.strip()]
    checks = []
    na = []
    for p in props:
        if p in CHECKS and os.path.exists(os.path.join(root, "harness", "checks", p.lower() + ".py")):
            c = CHECKS[p]
            checks.append({
                "property_id": p,
                "quick_cmd": f"./check {p} --tier quick",
                "thorough_cmd": f"./check {p} --tier thorough",
                "evidence_file": f"evidence/{p}.json",
                "replay_cmd_template": f"./check {p} --replay {{path}}",
                "engine": "lean-polar-model",
                "level_claimed": {"category": c["category"], "text": c["text"], "design_ref": c["design_ref"]},
                "level_note": c["note"],
                "technique": c["technique"],
            })
        else:
            na.append({"property_id": p, "reason": CHECKS.get(p, {}).get("na_reason", REASON_PENDING)})
    man = {
        "version": 1,
        "setup_cmd": "cd lean && lake build Polar PolarProofs polar-model",
        "hooks": {
            "guard": "PROBING_LAB_POLAR_VERIF",
            "enable": "no source hooks: the harness imports /repo's working tree in-process and wraps functions from outside; PROBING_LAB_POLAR_VERIF=1 is exported to the workers but nothing in /repo reads it",
            "baseline_off_cmd": BASE,
            "source_commits": [],
            "add_only": True,
        },
        "engines": [{
            "name": "lean-polar-model",
            "path": "lean/",
            "serves_properties": [c["property_id"] for c in checks],
            "kind_free_text": "Lean 4 model (Polar/*, Mathlib-free, compiled to polar-model) + theorems (PolarProofs/*) + Python correspondence harness (harness/*) driving the real code in-process",
        }],
        "checks": checks,
        "notes": "quick checks take 1-5 min each on 16 cores; exit 2 = the check itself failed (time-out, crash), never a verdict. Known findings: known_findings.json.",
        "not_applicable": na,
    }
    with open(os.path.join(root, "MANIFEST.json"), "w") as fh:
        json.dump(man, fh, indent=1)
    print(f"{len(checks)} checks, {len(na)} not claimed")


if __name__ == "__main__":
    main()
