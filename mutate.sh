#!/bin/bash
# usage: mutate.sh <name> <file> <python-regex-from> <to> -- <check args...>   (scratch worktree under /tmp, removed afterwards)
name=$1; file=$2; from=$3; to=$4; shift 5
wt=/tmp/wt_$name
git -C /repo worktree remove --force $wt 2>/dev/null
git -C /repo worktree add -q $wt HEAD || exit 3
python3 - "$wt/$file" "$from" "$to" <<'PY'
import sys,re
p,f,t=sys.argv[1:4]
s=open(p).read()
n=s.count(f)
if n==0: print("PATTERN NOT FOUND"); sys.exit(1)
open(p,'w').write(s.replace(f,t,1))
PY
[ $? -eq 0 ] || { git -C /repo worktree remove --force $wt; exit 3; }
(cd $wt && git diff | head -20)
cd /verif
for c in "$@"; do POLAR_REPO=$wt ./check $c --tier quick 2>&1 | grep -E "VIOLATION|KNOWN|->|Traceback|Error" | head -8; echo "[$c exit=${PIPESTATUS[0]}]"; done
git -C /repo worktree remove --force $wt
