#!/bin/bash
# usage: run_all.sh [tier] [seed]   -- runs every registered check once, prints one line per check
tier=${1:-quick}; seed=${2:-0}
cd "$(dirname "$0")"
for c in C01 C02 C03 C04 C05 C06 C07 C08 C09 C10 C11 C12 C13 C14 C15 C16 C17 C18 C19 C20; do
  t0=$(date +%s)
  VERIF_SEED=$seed ./check $c --tier $tier > /tmp/runall_${c}_${seed}.log 2>&1
  ex=$?
  t1=$(date +%s)
  nk=$(grep -c "^KNOWN-FINDING" /tmp/runall_${c}_${seed}.log)
  nv=$(grep -c "^VIOLATION" /tmp/runall_${c}_${seed}.log)
  echo "$c seed=$seed exit=$ex known=$nk violations=$nv wall=$((t1-t0))s"
done
